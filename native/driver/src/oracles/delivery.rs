//! Bounded stand-in for the orchestration in src/melda.rs `refresh` / `reload` / `check_delta` / `mark_valid_deltas`
//! (public API + the status accessor `Melda::vf_delta_statuses`).
//! Properties: (1) a block takes effect only when causally complete (its own file, every pack it lists and,
//! transitively, every parent block are present); (2) incremental `refresh()` == full reload (`Melda::new`);
//! (3) the order in which the adapter lists items does not matter.
//!
//! ONE fixed source history with a merge in its block graph:
//!   A: update(doc1) commit -> d1 (objects o1,o2,o3, array list♭ = [i1,i2]; the array is edited by A only)
//!   B: meld A + refresh;  A: update(o1.v=2, list♭=[i1,i2,i3]) commit -> d2a;
//!   B: update_object(o2) commit -> d2b (concurrent with d2a, different objects: no conflict)
//!   A: meld B + refresh; update(o3.v=2, new o4, list♭=[i1,i3]) commit -> d3 (parents {d2a,d2b})
//!   "long" history: A: delete_object(o4) commit -> d4 (a block without pack)
//! The item files of A's storage (every *.delta / *.pack with its bytes) are then delivered one by one, in many
//! orders, into an empty MemoryAdapter C on which ONE replica R was opened before the first delivery.  After EACH
//! delivered file: R.refresh(), then
//!   refresh-vs-reload: state(R) == state(fresh Melda::new on a fresh adapter holding exactly the delivered files)
//!   causal:            state(R) == state(fresh replica on an adapter holding only the files of the causally
//!                      complete blocks plus all delivered packs); completeness is computed here from the parents /
//!                      packs recorded with get_delta on the source
//!   status:            the blocks with status Applied are exactly the complete ones; no other known block is
//!                      Applied or Ready (Pending / Blocked / unknown accepted)
//! state = get_all_objects, get_winner + get_conflicting of every object, get_anchors, read(None) (no_root = empty).
//! The two expected states depend only on the SET of delivered files and are computed once per set.
//!   listing: fresh replicas (and one refreshed replica) on the same files through an adapter whose list_objects
//!            results are reversed / rotated / sorted descending / list child blocks before their parents give the
//!            same state as through the plain adapter.
//!   damage-after-index:<pack>:<kind>:<order>  (history "damage" = the long history with pairwise distinct values, so
//!            that no value digest lives in two packs) an order that delivers a pack strictly before the block listing
//!            it; AFTER the refresh that indexed the pack (or, ".late", just before its block is delivered) the pack is
//!            damaged in storage (one byte changed / truncated / item deleted), delivery goes on.  From then on, after
//!            every delivered file: refresh is Ok or Err (no panic); Applied blocks == blocks complete over the INTACT
//!            items (the damaged pack counts as missing: its block and all descendants stay incomplete); state ==
//!            state of a replica holding only those blocks and the intact packs; get_value of every object equals that
//!            replica's; when the block arrives and at the end a FRESH Melda::new on the damaged storage is Err or shows
//!            the same state.
//!   shared-content:<order>@<step>  (history "shared": A d1; B melds, create_object(itemB, X), d2b with pack p2b; only
//!            p2b is copied to A, A refreshes, create_object(itemA, X) with the byte-identical value plus one new value,
//!            d2a — de-duplication by digest keeps X out of A's pack p2a, checked here, else the family is reported as
//!            skipped) delivery orders of {d1,p1,d2a,p2a,p2b,d2b}: a block counts as complete only if, additionally,
//!            the content digest of every revision it records (taken from the block file; deleted / resolved / empty /
//!            charcode revisions excepted) is stored in some delivered pack (pack contents are computed here by
//!            parsing the pack).  After every delivered file: refresh Ok; read(None) does not panic; Applied == complete
//!            (so d2a is not Applied while p2b is absent), no block Ready; state == state of the complete blocks ==
//!            state of a fresh Melda::new on the same files; with all but d2b delivered the state is A's after d2a,
//!            with everything delivered it is A's after melding B.
//!   truncated-then-completed:<item>+<delay>:<order>  (long history) one pack or block file first becomes visible TRUNCATED
//!            to half of its bytes under its final name, a refresh happens (Ok or Err, no panic; if Ok the state is that of
//!            the complete blocks over the intact items), <delay> further files later (or after all others, "@end") the item
//!            is completed and refresh runs again: from then on refresh is Ok and the long-lived replica == fresh Melda::new
//!            on the same storage == the causally complete blocks, Applied blocks == complete blocks.
//! Everything runs in worker threads under a 10 s watchdog (`hang:` case, oracle stops).
use super::orch::{self, Dyn, Listing, ListingAdapter, Out, Rng};
use super::FailureClasses;
use crate::Report;
use melda::melda::{DeltaId, Melda};
use serde_json::{json, Value};
use std::collections::{BTreeSet, HashMap};
use std::sync::Arc;

const F: &str = "\u{266D}";

fn doc(step: usize, uniq: bool) -> serde_json::Map<String, Value> {
    let k = |s: &str| format!("{}{}", s, F);
    let mut m = serde_json::Map::new();
    m.insert("title".into(), json!("t1"));
    let (v1, v2, v3) = match step {
        1 => (1, 1, 1),
        2 => (2, 1, 1),
        _ => (2, 2, 2),
    };
    m.insert(k("a"), json!({"_id": "o1", "v": v1}));
    // uniq: no value (digest) occurs in two packs; otherwise o1 and o2 take the same value {"v":2} concurrently
    m.insert(k("b"), if uniq { json!({"_id": "o2", "w": v2}) } else { json!({"_id": "o2", "v": v2}) });
    m.insert(k("c"), json!({"_id": "o3", "v": v3, "s": "x}y"}));
    let list = match step {
        1 => json!([{"_id": "i1", "n": 1}, {"_id": "i2", "n": 2}]),
        2 => json!([{"_id": "i1", "n": 1}, {"_id": "i2", "n": 2}, {"_id": "i3", "n": 3}]),
        _ => json!([{"_id": "i1", "n": 1}, {"_id": "i3", "n": 3}]),
    };
    m.insert(k("list"), list);
    if step >= 3 {
        m.insert(k("d"), json!({"_id": "o4", "v": 1}));
    }
    m
}

struct Block {
    file: usize,
    id: String,
    parents: Vec<String>,
    packs: Vec<usize>, // file indices; usize::MAX = a listed pack that is not among the items
    /// content digests of the revisions the block records (content-less revisions left out); only filled for the
    /// shared-content history — elsewhere every recorded value lives in the block's own pack or an ancestor's
    needs: Vec<String>,
}

pub struct Hist {
    name: String,
    labels: Vec<String>,
    keys: Vec<String>,
    bytes: Vec<Vec<u8>>,
    blocks: Vec<Block>,
    /// per file: digests of the values stored in it (packs of the shared-content history only)
    contents: Vec<BTreeSet<String>>,
}

impl Hist {
    fn n(&self) -> usize {
        self.keys.len()
    }
    fn idx(&self, label: &str) -> Option<usize> {
        self.labels.iter().position(|l| l == label)
    }
    fn order_str(&self, order: &[usize]) -> String {
        order.iter().map(|i| self.labels[*i].as_str()).collect::<Vec<&str>>().join(",")
    }
    fn mask_str(&self, mask: u32) -> String {
        (0..self.n()).filter(|i| mask & (1 << i) != 0).map(|i| self.labels[i].as_str()).collect::<Vec<&str>>().join(",")
    }
    /// indices (into `blocks`) of the causally complete blocks for a set of delivered files
    fn complete(&self, mask: u32) -> BTreeSet<usize> {
        let has = |f: usize| f != usize::MAX && mask & (1 << f) != 0;
        let mut done: BTreeSet<usize> = BTreeSet::new();
        loop {
            let mut grew = false;
            for (bi, b) in self.blocks.iter().enumerate() {
                if done.contains(&bi) || !has(b.file) || !b.packs.iter().all(|p| has(*p)) {
                    continue;
                }
                // every recorded value must be stored in some delivered pack
                if !b.needs.iter().all(|d| (0..self.n()).any(|f| has(f) && self.contents[f].contains(d))) {
                    continue;
                }
                let parents_ok = b.parents.iter().all(|p| self.blocks.iter().enumerate().any(|(pi, pb)| &pb.id == p && done.contains(&pi)));
                if parents_ok {
                    done.insert(bi);
                    grew = true;
                }
            }
            if !grew {
                return done;
            }
        }
    }
    fn adapter_with(&self, files: impl Iterator<Item = usize>) -> Result<Dyn, String> {
        let ad = orch::mem();
        for f in files {
            orch::put(&ad, &self.keys[f], &self.bytes[f])?;
        }
        Ok(ad)
    }
}

fn one(anchors: Option<BTreeSet<DeltaId>>, what: &str) -> Result<DeltaId, String> {
    match anchors {
        Some(s) if s.len() == 1 => Ok(s.into_iter().next().unwrap()),
        other => Err(format!("{}: commit returned {:?}, expected one block id", what, other)),
    }
}

/// builds the source history and collects A's item files
pub fn build(long: bool, uniq: bool) -> Result<Hist, String> {
    let (ad_a, ad_b) = (orch::mem(), orch::mem());
    let a = orch::open(&ad_a)?;
    let mut a = a;
    let mut b = orch::open(&ad_b)?;
    let mut named: Vec<(String, DeltaId)> = vec![];
    orch::ge("A.update(doc1)", || a.update(doc(1, uniq)))?;
    named.push(("1".into(), one(orch::ge("A.commit d1", || a.commit(None))?, "d1")?));
    orch::ge("B.meld(A)", || b.meld(&a))?;
    orch::ge("B.refresh", || b.refresh())?;
    orch::ge("A.update(doc2)", || a.update(doc(2, uniq)))?;
    named.push(("2a".into(), one(orch::ge("A.commit d2a", || a.commit(None))?, "d2a")?));
    orch::ge("B.update_object(o2)", || b.update_object("o2", orch::obj(if uniq { json!({"w": 2}) } else { json!({"v": 2}) })))?;
    named.push(("2b".into(), one(orch::ge("B.commit d2b", || b.commit(Some(orch::obj(json!({"author": "B"})))))?, "d2b")?));
    orch::ge("A.meld(B)", || a.meld(&b))?;
    orch::ge("A.refresh", || a.refresh())?;
    let conflicts = orch::g(|| a.in_conflict()).map_err(|p| format!("panic in in_conflict: {}", p))?;
    if !conflicts.is_empty() {
        // never commit with a conflict around (the array case hangs on this version); this history has none by construction
        return Err(format!("source history: unexpected conflicts after meld+refresh: {:?}", conflicts));
    }
    orch::ge("A.update(doc3)", || a.update(doc(3, uniq)))?;
    named.push(("3".into(), one(orch::ge("A.commit d3", || a.commit(None))?, "d3")?));
    if long {
        orch::ge("A.delete_object(o4)", || a.delete_object("o4"))?;
        named.push(("4".into(), one(orch::ge("A.commit d4", || a.commit(Some(orch::obj(json!({})))))?, "d4")?));
    }
    let items = orch::items_of(&ad_a)?;
    let keys: Vec<String> = items.keys().cloned().collect();
    let bytes: Vec<Vec<u8>> = items.values().cloned().collect();
    let mut labels: Vec<String> = keys.iter().map(|k| format!("?{}", &k[..k.len().min(10)])).collect();
    let mut blocks = vec![];
    for (suffix, id) in &named {
        let file = keys.iter().position(|k| k == &id.key()).ok_or_else(|| format!("block {} (d{}) is not in A's storage", id, suffix))?;
        labels[file] = format!("d{}", suffix);
        let d = orch::ge("get_delta", || a.get_delta(id))?.ok_or_else(|| format!("get_delta({}) is None on the source", id))?;
        let parents: Vec<String> = d.parents.clone().unwrap_or_default().iter().map(|p| p.to_string()).collect();
        let mut packs = vec![];
        for (j, p) in d.packs.clone().unwrap_or_default().iter().enumerate() {
            match keys.iter().position(|k| k == &format!("{}.pack", p)) {
                Some(pf) => {
                    labels[pf] = if j == 0 { format!("p{}", suffix) } else { format!("p{}.{}", suffix, j) };
                    packs.push(pf);
                }
                None => packs.push(usize::MAX),
            }
        }
        blocks.push(Block { file, id: id.to_string(), parents, packs, needs: vec![] });
    }
    // shape of the block graph this oracle is about
    let id_of = |s: &str| named.iter().find(|(x, _)| x == s).map(|(_, i)| i.to_string()).unwrap_or_default();
    let want: Vec<(&str, Vec<String>)> = vec![("1", vec![]), ("2a", vec![id_of("1")]), ("2b", vec![id_of("1")]), ("3", { let mut v = vec![id_of("2a"), id_of("2b")]; v.sort(); v })];
    for (s, parents) in want {
        let b = blocks.iter().find(|b| b.id == id_of(s)).unwrap();
        let mut got = b.parents.clone();
        got.sort();
        if got != parents {
            return Err(format!("source history: block d{} has parents {:?}, expected {:?}", s, got, parents));
        }
    }
    if keys.len() > 16 {
        return Err("source history: more than 16 item files".into());
    }
    // file indices in label order: item names depend on the hash-map order inside a pack (different in every
    // process), labels do not, so a seed selects the same delivery orders in every run
    let mut perm: Vec<usize> = (0..keys.len()).collect();
    perm.sort_by(|x, y| labels[*x].cmp(&labels[*y]));
    let pos = |old: usize| if old == usize::MAX { usize::MAX } else { perm.iter().position(|p| *p == old).unwrap() };
    for b in blocks.iter_mut() {
        b.file = pos(b.file);
        for p in b.packs.iter_mut() {
            *p = pos(*p);
        }
    }
    let labels: Vec<String> = perm.iter().map(|i| labels[*i].clone()).collect();
    let bytes: Vec<Vec<u8>> = perm.iter().map(|i| bytes[*i].clone()).collect();
    let keys: Vec<String> = perm.iter().map(|i| keys[*i].clone()).collect();
    let contents = vec![BTreeSet::new(); keys.len()];
    Ok(Hist { name: if uniq { "damage".into() } else if long { "long".into() } else { "base".into() }, labels, keys, bytes, blocks, contents })
}

struct Expect {
    fresh: Value,
    reference: Value,
    /// get_value(o, None) of every object of the reference replica
    values: Value,
    complete: BTreeSet<String>,
    delivered_blocks: BTreeSet<String>,
}

fn values_of(m: &Melda) -> Value {
    let mut out = serde_json::Map::new();
    for o in orch::g(|| m.get_all_objects()).unwrap_or_default() {
        out.insert(o.clone(), orch::res(orch::g(|| m.get_value(&o, None).map(Value::Object))));
    }
    Value::Object(out)
}

fn opened_state(ad: &Dyn) -> Value {
    match orch::open(ad) {
        Ok(m) => orch::state(&m),
        Err(e) => json!({ "open": e }),
    }
}

fn expect<'a>(h: &Hist, memo: &'a mut HashMap<u32, Expect>, mask: u32) -> Result<&'a Expect, String> {
    if !memo.contains_key(&mask) {
        let delivered = (0..h.n()).filter(|i| mask & (1 << i) != 0);
        let fresh = opened_state(&h.adapter_with(delivered)?);
        let comp = h.complete(mask);
        let comp_files: BTreeSet<usize> = comp.iter().map(|bi| h.blocks[*bi].file).collect();
        let is_block_file = |f: usize| h.blocks.iter().any(|b| b.file == f);
        let ref_files = (0..h.n()).filter(|i| mask & (1 << i) != 0 && (comp_files.contains(i) || !is_block_file(*i)));
        let (reference, values) = match orch::open(&h.adapter_with(ref_files)?) {
            Ok(m) => (orch::state(&m), values_of(&m)),
            Err(e) => (json!({ "open": e }), json!({})),
        };
        memo.insert(
            mask,
            Expect {
                fresh,
                reference,
                values,
                complete: comp.iter().map(|bi| h.blocks[*bi].id.clone()).collect(),
                delivered_blocks: h.blocks.iter().filter(|b| mask & (1 << b.file) != 0).map(|b| b.id.clone()).collect(),
            },
        );
    }
    Ok(memo.get(&mask).unwrap())
}

fn input_of(h: &Hist, order: &[usize]) -> Value {
    json!({"history": h.name, "order": order.iter().map(|i| h.labels[*i].clone()).collect::<Vec<String>>()})
}

/// delivers the files in `order` one by one into a fresh adapter observed by one long-lived replica
fn run_order(h: &Hist, memo: &mut HashMap<u32, Expect>, order: &[usize], out: &Out) {
    let os = h.order_str(order);
    let input = input_of(h, order);
    out.begin(&format!("delivery:{}", os), input.clone());
    let c = orch::mem();
    let mut r: Melda = match orch::open(&c) {
        Ok(r) => r,
        Err(e) => {
            out.fail("refresh-vs-reload", &format!("refresh-vs-reload:{}@0", os), input, &format!("on an empty adapter: {}", e));
            return;
        }
    };
    let mut mask = 0u32;
    let mut prev_incomplete = false;
    for (k, f) in order.iter().enumerate() {
        let step = k + 1;
        if let Err(e) = orch::put(&c, &h.keys[*f], &h.bytes[*f]) {
            out.fail("driver", &format!("driver:{}@{}", os, step), input, &e);
            return;
        }
        mask |= 1 << f;
        let refreshed = orch::ge("refresh", || r.refresh());
        let ex = match expect(h, memo, mask) {
            Ok(e) => e,
            Err(e) => {
                out.fail("driver", &format!("driver:{}@{}", os, step), input, &e);
                return;
            }
        };
        let incomplete = ex.complete != ex.delivered_blocks;
        let nontrivial = incomplete || prev_incomplete;
        prev_incomplete = incomplete;
        let s = orch::state(&r);
        let mut failed = false;
        // (a)
        let id = format!("refresh-vs-reload:{}@{}", os, step);
        out.case(&id, nontrivial);
        if let Err(e) = &refreshed {
            out.fail("refresh-vs-reload", &id, input.clone(), &format!("after delivering {}: {}", h.labels[*f], e));
            failed = true;
        } else if s != ex.fresh {
            let d = orch::first_difference(&s, &ex.fresh, &orch::STATE_KEYS).unwrap_or_else(|| ex.fresh.to_string());
            out.fail("refresh-vs-reload", &id, input.clone(), &format!("after delivering {} (step {}): refreshed replica vs freshly opened replica on the same files differ; {}", h.labels[*f], step, d));
            failed = true;
        }
        // (b)
        let id = format!("causal:{}@{}", os, step);
        out.case(&id, nontrivial);
        if s != ex.reference {
            let d = orch::first_difference(&s, &ex.reference, &orch::STATE_KEYS).unwrap_or_else(|| ex.reference.to_string());
            out.fail(
                "causal",
                &id,
                input.clone(),
                &format!("after delivering {} (step {}): refreshed replica vs replica holding only the causally complete blocks differ; {}", h.labels[*f], step, d),
            );
            failed = true;
        }
        // (c)
        let id = format!("status:{}@{}", os, step);
        out.case(&id, nontrivial);
        match orch::g(|| r.vf_delta_statuses()) {
            Err(p) => {
                out.fail("status", &id, input.clone(), &format!("panic reading the block statuses: {}", p));
                failed = true;
            }
            Ok(st) => {
                let label = |bid: &str| h.blocks.iter().find(|b| b.id == bid).map(|b| h.labels[b.file].clone()).unwrap_or_else(|| bid.to_string());
                let applied: BTreeSet<String> = st.iter().filter(|(_, s)| s == "Applied").map(|(i, _)| i.clone()).collect();
                let ready: Vec<String> = st.iter().filter(|(_, s)| s == "Ready").map(|(i, _)| label(i)).collect();
                if applied != ex.complete {
                    out.fail(
                        "status",
                        &id,
                        input.clone(),
                        &format!(
                            "after delivering {} (step {}): Applied blocks {:?} but causally complete blocks {:?}",
                            h.labels[*f],
                            step,
                            applied.iter().map(|i| label(i)).collect::<Vec<String>>(),
                            ex.complete.iter().map(|i| label(i)).collect::<Vec<String>>()
                        ),
                    );
                    failed = true;
                } else if !ready.is_empty() {
                    out.fail("status", &id, input.clone(), &format!("after delivering {} (step {}): blocks left in status Ready after refresh: {:?}", h.labels[*f], step, ready));
                    failed = true;
                }
            }
        }
        if failed {
            return; // later steps of this order would only repeat the report
        }
    }
}

// ------------------------------------------------------------------------------------------ damage after indexing

/// what happens to a pack in storage AFTER the replica has indexed it (refresh ran) and BEFORE its block arrives
#[derive(Clone, Debug)]
pub enum Dmg {
    /// byte at this index: xor 1 (replacement 0) or set to the replacement byte
    Flip(usize, u8),
    /// keep only this many leading bytes
    Trunc(usize),
    Delete,
}

impl Dmg {
    fn name(&self) -> String {
        match self {
            Dmg::Flip(p, 0) => format!("flip{}", p),
            Dmg::Flip(p, b) => format!("set{}-{:02x}", p, b),
            Dmg::Trunc(l) => format!("trunc{}", l),
            Dmg::Delete => "delete".to_string(),
        }
    }
    fn to_json(&self) -> Value {
        match self {
            Dmg::Flip(p, b) => json!({"flip": p, "byte": b}),
            Dmg::Trunc(l) => json!({ "trunc": l }),
            Dmg::Delete => json!("delete"),
        }
    }
    fn from_json(v: &Value) -> Option<Dmg> {
        if v.as_str() == Some("delete") {
            return Some(Dmg::Delete);
        }
        if let Some(l) = v["trunc"].as_u64() {
            return Some(Dmg::Trunc(l as usize));
        }
        Some(Dmg::Flip(v["flip"].as_u64()? as usize, v["byte"].as_u64().unwrap_or(0) as u8))
    }
    fn apply(&self, map: &mut std::collections::BTreeMap<String, Vec<u8>>, key: &str) {
        match self {
            Dmg::Delete => {
                map.remove(key);
            }
            Dmg::Trunc(l) => {
                if let Some(d) = map.get_mut(key) {
                    let l = (*l).min(d.len().saturating_sub(1));
                    d.truncate(l);
                }
            }
            Dmg::Flip(p, b) => {
                if let Some(d) = map.get_mut(key) {
                    if !d.is_empty() {
                        let p = (*p).min(d.len() - 1);
                        d[p] = if *b == 0 || *b == d[p] { d[p] ^ 0x01 } else { *b };
                    }
                }
            }
        }
    }
}

pub struct DamageJob {
    pack: usize,
    dmg: Dmg,
    /// false: damaged right after the refresh that followed the pack's delivery; true: just before its block is delivered
    late: bool,
    order: Vec<usize>,
}

/// `order` delivers `pack` strictly before the block that lists it. From the damage on, after every delivered file:
/// refresh may be Ok or Err (no panic); Applied blocks == blocks complete over the INTACT items (the damaged pack
/// counts as missing, so its block and all descendants are incomplete); state == state of a replica holding only
/// those complete blocks and the intact packs; get_value of every object == that replica's.  When the block arrives
/// and at the end: a fresh Melda::new on the damaged storage is Err or shows that same state.
fn run_damage(h: &Hist, memo: &mut HashMap<u32, Expect>, job: &DamageJob, out: &Out) {
    let os = h.order_str(&job.order);
    let kind = format!("{}{}", job.dmg.name(), if job.late { ".late" } else { "" });
    let id = format!("damage-after-index:{}:{}:{}", h.labels[job.pack], kind, os);
    let mut input = input_of(h, &job.order);
    input["pack"] = json!(h.labels[job.pack]);
    input["damage"] = job.dmg.to_json();
    input["late"] = json!(job.late);
    out.begin(&id, input.clone());
    out.case(&id, true);
    let fail = |what: String| out.fail(&format!("damage-after-index:{}", match job.dmg { Dmg::Flip(..) => "flip", Dmg::Trunc(..) => "truncate", Dmg::Delete => "delete" }), &id, input.clone(), &what);
    let block = match h.blocks.iter().find(|b| b.packs.contains(&job.pack)) {
        Some(b) => b.file,
        None => return fail(format!("no block lists {}", h.labels[job.pack])),
    };
    let (pp, bp) = (job.order.iter().position(|f| *f == job.pack), job.order.iter().position(|f| *f == block));
    if !matches!((pp, bp), (Some(p), Some(b)) if p < b) {
        return fail("driver: the order does not deliver the pack before its block".into());
    }
    let map = std::sync::Arc::new(std::sync::Mutex::new(std::collections::BTreeMap::new()));
    let c = orch::dynof(orch::StoreAdapter { map: map.clone() });
    let mut r: Melda = match orch::open(&c) {
        Ok(r) => r,
        Err(e) => return fail(format!("on an empty adapter: {}", e)),
    };
    let mut mask = 0u32;
    let mut damaged = false;
    for (k, f) in job.order.iter().enumerate() {
        let step = k + 1;
        if job.late && *f == block && !damaged {
            job.dmg.apply(&mut map.lock().unwrap(), &h.keys[job.pack]);
            damaged = true;
        }
        map.lock().unwrap().insert(h.keys[*f].clone(), h.bytes[*f].clone());
        mask |= 1 << f;
        let refreshed = orch::g(|| r.refresh());
        let at = format!("after delivering {} (step {}, pack {} {})", h.labels[*f], step, h.labels[job.pack], if damaged { "already damaged" } else { "intact" });
        match (&refreshed, damaged) {
            (Err(p), _) => return fail(format!("{}: panic in refresh: {}", at, p)),
            (Ok(Err(e)), false) => return fail(format!("{}: refresh is Err({}) on intact storage", at, e)),
            _ => {}
        }
        if damaged {
            let eff = mask & !(1u32 << job.pack);
            let ex = match expect(h, memo, eff) {
                Ok(e) => e,
                Err(e) => return fail(format!("driver: {}", e)),
            };
            let label = |bid: &str| h.blocks.iter().find(|b| b.id == bid).map(|b| h.labels[b.file].clone()).unwrap_or_else(|| bid.to_string());
            match orch::g(|| r.vf_delta_statuses()) {
                Err(p) => return fail(format!("{}: panic reading the block statuses: {}", at, p)),
                Ok(st) => {
                    let applied: BTreeSet<String> = st.iter().filter(|(_, s)| s == "Applied").map(|(i, _)| i.clone()).collect();
                    if applied != ex.complete {
                        return fail(format!(
                            "{}: Applied blocks {:?} but the blocks complete over the intact items are {:?}",
                            at,
                            applied.iter().map(|i| label(i)).collect::<Vec<String>>(),
                            ex.complete.iter().map(|i| label(i)).collect::<Vec<String>>()
                        ));
                    }
                }
            }
            let s = orch::state(&r);
            if s != ex.reference {
                let d = orch::first_difference(&s, &ex.reference, &orch::STATE_KEYS).unwrap_or_else(|| ex.reference.to_string());
                return fail(format!("{}: replica state vs state of the complete blocks over the intact items; {}", at, d));
            }
            let v = values_of(&r);
            if v != ex.values {
                let o = v.as_object().and_then(|m| m.iter().find(|(k, x)| ex.values.get(k.as_str()) != Some(*x)).map(|(k, x)| format!("{}: {} vs {}", k, x, ex.values[k.as_str()]))).unwrap_or_default();
                return fail(format!("{}: get_value differs from the intact reference; {}", at, o));
            }
            if *f == block || step == job.order.len() {
                match orch::open(&c) {
                    Err(_) => {}
                    Ok(fresh) => {
                        let sf = orch::state(&fresh);
                        if sf != ex.reference {
                            let d = orch::first_difference(&sf, &ex.reference, &orch::STATE_KEYS).unwrap_or_else(|| ex.reference.to_string());
                            return fail(format!("{}: a FRESH replica on the damaged storage opens and differs from the state over the intact items; {}", at, d));
                        }
                    }
                }
            }
        }
        if !job.late && *f == job.pack {
            job.dmg.apply(&mut map.lock().unwrap(), &h.keys[job.pack]);
            damaged = true;
        }
    }
}

fn damage_jobs(h: &Hist, thorough: bool, rng: &mut Rng) -> Vec<DamageJob> {
    let mut jobs = vec![];
    let per = if thorough { 60 } else { 8 };
    for b in &h.blocks {
        for pack in b.packs.iter().filter(|p| **p != usize::MAX) {
            let len = h.bytes[*pack].len();
            let mut kinds = vec![Dmg::Flip(len / 2, 0), Dmg::Trunc(len / 2), Dmg::Delete];
            if thorough {
                for i in 0..8 {
                    kinds.push(Dmg::Flip(i * len.saturating_sub(1) / 7, 0));
                }
                for (p, byte) in [(len / 3, b' '), (len / 2, b'}'), (2 * len / 3, b'"'), (0, b'{'), (len.saturating_sub(1), b',')] {
                    kinds.push(Dmg::Flip(p, byte));
                }
                kinds.push(Dmg::Trunc(0));
                kinds.push(Dmg::Trunc(len.saturating_sub(1)));
            }
            for dmg in kinds {
                for late in [false, true] {
                    let mut seen: BTreeSet<Vec<usize>> = BTreeSet::new();
                    let mut tries = 0;
                    while seen.len() < per && tries < per * 20 {
                        tries += 1;
                        let mut order: Vec<usize> = (0..h.n()).collect();
                        rng.shuffle(&mut order);
                        let pos = |f: usize| order.iter().position(|x| *x == f).unwrap();
                        if pos(*pack) < pos(b.file) && seen.insert(order.clone()) {
                            jobs.push(DamageJob { pack: *pack, dmg: dmg.clone(), late, order });
                        }
                    }
                }
            }
        }
    }
    jobs
}

fn damage_family(thorough: bool, rng: &mut Rng, workers: usize, out: &Out) {
    let h = match build(true, true) {
        Ok(h) => Arc::new(h),
        Err(e) => {
            out.case("history:damage", true);
            out.fail("history", "history:damage", json!({"history": "damage"}), &e);
            return;
        }
    };
    out.case("history:damage", true);
    let jobs = damage_jobs(&h, thorough, rng);
    out.note(&format!("damage-after-index: {} scenarios on the {} files of the history with pairwise distinct values", jobs.len(), h.n()));
    orch::fan_out(out, workers, jobs, move |part: Vec<DamageJob>, out: &Out| {
        let mut memo: HashMap<u32, Expect> = HashMap::new();
        for j in &part {
            run_damage(&h, &mut memo, j, out);
        }
    });
}

// ------------------------------------------------------------------------------------------ truncated, then completed

pub struct TruncJob {
    item: usize,
    /// how many further files are delivered (each followed by a refresh) before the item is completed
    /// (usize::MAX: completed after everything else)
    delay: usize,
    order: Vec<usize>,
}

/// One item (a pack or a block file) first becomes visible TRUNCATED to half of its bytes under its final name (a file
/// being synchronised), a refresh happens (Ok or Err, no panic), later the item is completed and refresh runs again.
/// While the item is truncated: the replica's state == the state of the causally complete blocks over the other
/// delivered items whenever refresh returned Ok.  From the completion on, after every refresh (must be Ok): state ==
/// fresh Melda::new on the same storage == state of the complete blocks; Applied blocks == complete blocks.
fn run_truncated(h: &Hist, memo: &mut HashMap<u32, Expect>, job: &TruncJob, out: &Out) {
    let os = h.order_str(&job.order);
    let id = format!("truncated-then-completed:{}{}:{}", h.labels[job.item], if job.delay == usize::MAX { "@end".to_string() } else { format!("+{}", job.delay) }, os);
    let mut input = input_of(h, &job.order);
    input["truncated"] = json!(h.labels[job.item]);
    input["delay"] = if job.delay == usize::MAX { json!("end") } else { json!(job.delay) };
    out.begin(&id, input.clone());
    out.case(&id, true);
    let fail = |what: String| out.fail("truncated-then-completed", &id, input.clone(), &what);
    let map = std::sync::Arc::new(std::sync::Mutex::new(std::collections::BTreeMap::new()));
    let c = orch::dynof(orch::StoreAdapter { map: map.clone() });
    let mut r: Melda = match orch::open(&c) {
        Ok(r) => r,
        Err(e) => return fail(format!("on an empty adapter: {}", e)),
    };
    let key = h.keys[job.item].clone();
    let full = h.bytes[job.item].clone();
    // events, each followed by a refresh: the files in order; the item arrives truncated and is completed
    // `delay` deliveries later (0: right away), at the latest after everything else
    #[derive(Clone, Copy, PartialEq)]
    enum Ev {
        Deliver(usize),
        Truncated,
        Completed,
    }
    let mut events: Vec<Ev> = vec![];
    let mut countdown: Option<usize> = None;
    for f in &job.order {
        if *f == job.item {
            events.push(Ev::Truncated);
            countdown = Some(job.delay);
        } else {
            events.push(Ev::Deliver(*f));
            if let Some(n) = countdown {
                if n != usize::MAX && n > 0 {
                    countdown = Some(n - 1);
                }
            }
        }
        if countdown == Some(0) {
            events.push(Ev::Completed);
            countdown = None;
        }
    }
    if !events.contains(&Ev::Completed) {
        events.push(Ev::Completed);
    }
    let mut mask = 0u32; // intact items only
    let mut pending = false;
    let mut completed = false;
    for (k, ev) in events.iter().enumerate() {
        let what = match ev {
            Ev::Truncated => {
                map.lock().unwrap().insert(key.clone(), full[..full.len() / 2].to_vec());
                pending = true;
                format!("{} arrives truncated", h.labels[job.item])
            }
            Ev::Deliver(f) => {
                map.lock().unwrap().insert(h.keys[*f].clone(), h.bytes[*f].clone());
                mask |= 1 << f;
                format!("{} arrives", h.labels[*f])
            }
            Ev::Completed => {
                map.lock().unwrap().insert(key.clone(), full.clone());
                mask |= 1 << job.item;
                completed = true;
                format!("{} completed", h.labels[job.item])
            }
        };
        let at = format!("step {} ({})", k + 1, what);
        let refreshed = match orch::g(|| r.refresh()) {
            Ok(x) => x,
            Err(p) => return fail(format!("{}: panic in refresh: {}", at, p.lines().next().unwrap_or(""))),
        };
        let truncated_now = pending && !completed;
        let ex = match expect(h, memo, mask) {
            Ok(e) => e,
            Err(e) => return fail(format!("driver: {}", e)),
        };
        if truncated_now {
            if refreshed.is_ok() {
                let s = orch::state(&r);
                if s != ex.reference {
                    let d = orch::first_difference(&s, &ex.reference, &orch::STATE_KEYS).unwrap_or_default();
                    return fail(format!("{}: refresh returned Ok while the item is truncated, but the state is not that of the complete blocks over the intact items; {}", at, d));
                }
            }
            continue;
        }
        if let Err(e) = refreshed {
            return fail(format!("{}: refresh is Err({}) although every stored item is intact", at, e));
        }
        let s = orch::state(&r);
        if s != ex.fresh {
            let d = orch::first_difference(&s, &ex.fresh, &orch::STATE_KEYS).unwrap_or_else(|| ex.fresh.to_string());
            return fail(format!("{}: long-lived replica vs fresh Melda::new on the same storage; {}", at, d));
        }
        if s != ex.reference {
            let d = orch::first_difference(&s, &ex.reference, &orch::STATE_KEYS).unwrap_or_default();
            return fail(format!("{}: long-lived replica vs the causally complete blocks; {}", at, d));
        }
        match orch::g(|| r.vf_delta_statuses()) {
            Err(p) => return fail(format!("{}: panic reading the block statuses: {}", at, p)),
            Ok(st) => {
                let applied: BTreeSet<String> = st.iter().filter(|(_, s)| s == "Applied").map(|(i, _)| i.clone()).collect();
                if applied != ex.complete {
                    let label = |bid: &String| h.blocks.iter().find(|b| &b.id == bid).map(|b| h.labels[b.file].clone()).unwrap_or_else(|| bid.clone());
                    return fail(format!("{}: Applied blocks {:?} but complete blocks {:?}", at, applied.iter().map(label).collect::<Vec<String>>(), ex.complete.iter().map(label).collect::<Vec<String>>()));
                }
            }
        }
    }
}

fn truncated_jobs(h: &Hist, thorough: bool, rng: &mut Rng) -> Vec<TruncJob> {
    let mut jobs = vec![];
    let per = if thorough { 25 } else { 3 };
    for item in 0..h.n() {
        for delay in [0usize, 1, 3, usize::MAX] {
            for _ in 0..per {
                let mut order: Vec<usize> = (0..h.n()).collect();
                rng.shuffle(&mut order);
                jobs.push(TruncJob { item, delay, order });
            }
        }
    }
    jobs
}

fn truncated_family(thorough: bool, rng: &mut Rng, workers: usize, out: &Out) {
    let h = match build(true, false) {
        Ok(h) => Arc::new(h),
        Err(e) => {
            out.fail("history", "history:long", json!({"history": "long"}), &e);
            return;
        }
    };
    let jobs = truncated_jobs(&h, thorough, rng);
    out.note(&format!("truncated-then-completed: {} scenarios on the {} files of the long history", jobs.len(), h.n()));
    orch::fan_out(out, workers, jobs, move |part: Vec<TruncJob>, out: &Out| {
        let mut memo: HashMap<u32, Expect> = HashMap::new();
        for j in &part {
            run_truncated(&h, &mut memo, j, out);
        }
    });
}

// ------------------------------------------------------------------------------------------ shared content

fn content_less(d: &str) -> bool {
    d == "d" || d == "r" || d == "e" || (d.len() <= 8 && u32::from_str_radix(d, 16).is_ok())
}

pub struct Shared {
    h: Hist,
    /// A right after committing d2a (knows d1, d2a and the packs p1, p2a, p2b)
    a_pre: Value,
    /// A after melding B and refreshing (knows everything)
    a_post: Value,
    /// Some(reason) when A's own pack does contain the shared value (de-duplication did not happen): nothing to test
    vacuous: Option<String>,
}

/// A: d1 (p1).  B melds A, refreshes, create_object(itemB, X), commits d2b (p2b holds X).  ONLY p2b is copied into A's
/// storage and A refreshes (X is indexed from a pack of a block A does not know).  A: create_object(itemA, X) — the
/// byte-identical value — and create_object(itemA2, new value), commits d2a: its pack p2a holds only the new value.
pub fn build_shared() -> Result<Shared, String> {
    let (ad_a, ad_b) = (orch::mem(), orch::mem());
    let mut a = orch::open(&ad_a)?;
    let mut b = orch::open(&ad_b)?;
    let mut d1 = serde_json::Map::new();
    d1.insert("title".into(), json!("todo"));
    d1.insert(format!("a{}", F), json!({"_id": "o1", "text": "Feed the cat"}));
    orch::ge("A.update(doc)", || a.update(d1))?;
    let id1 = one(orch::ge("A.commit d1", || a.commit(None))?, "d1")?;
    orch::ge("B.meld(A)", || b.meld(&a))?;
    orch::ge("B.refresh", || b.refresh())?;
    let x = || orch::obj(json!({"text": "Buy milk"}));
    orch::ge("B.create_object(itemB)", || b.create_object("itemB", x()))?;
    let id2b = one(orch::ge("B.commit d2b", || b.commit(None))?, "d2b")?;
    let items_b = orch::items_of(&ad_b)?;
    let delta2b = orch::ge("get_delta", || b.get_delta(&id2b))?.ok_or("get_delta(d2b) is None")?;
    let p2b = delta2b.packs.clone().unwrap_or_default().into_iter().next().ok_or("d2b lists no pack")?;
    let p2b_key = format!("{}.pack", p2b);
    orch::put(&ad_a, &p2b_key, items_b.get(&p2b_key).ok_or("p2b not in B's storage")?)?;
    orch::ge("A.refresh (p2b only)", || a.refresh())?;
    orch::ge("A.create_object(itemA)", || a.create_object("itemA", x()))?;
    orch::ge("A.create_object(itemA2)", || a.create_object("itemA2", orch::obj(json!({"text": "Walk the dog"}))))?;
    let id2a = one(orch::ge("A.commit d2a", || a.commit(None))?, "d2a")?;
    let a_pre = orch::state(&a);
    let mut items = orch::items_of(&ad_a)?;
    items.insert(id2b.key(), items_b.get(&id2b.key()).cloned().ok_or("d2b not in B's storage")?);
    orch::ge("A.meld(B)", || a.meld(&b))?;
    orch::ge("A.refresh", || a.refresh())?;
    let a_post = orch::state(&a);

    let keys: Vec<String> = items.keys().cloned().collect();
    let bytes: Vec<Vec<u8>> = items.values().cloned().collect();
    let mut labels: Vec<String> = keys.iter().map(|k| format!("?{}", &k[..k.len().min(10)])).collect();
    let mut contents: Vec<BTreeSet<String>> = vec![BTreeSet::new(); keys.len()];
    for (i, k) in keys.iter().enumerate() {
        if k.ends_with(".pack") {
            let v: Value = serde_json::from_slice(&bytes[i]).map_err(|e| format!("pack {} is not JSON: {}", k, e))?;
            for el in v.as_array().ok_or("pack is not an array")? {
                contents[i].insert(melda::vf::utils::digest_string(&el.to_string()));
            }
        }
    }
    let mut blocks = vec![];
    for (suffix, id) in [("1", &id1), ("2a", &id2a), ("2b", &id2b)] {
        let file = keys.iter().position(|k| k == &id.key()).ok_or_else(|| format!("block d{} is not among the items", suffix))?;
        labels[file] = format!("d{}", suffix);
        // parents, packs and recorded revisions are taken from the block file itself
        let j: Value = serde_json::from_slice(&bytes[file]).map_err(|e| format!("block d{} is not JSON: {}", suffix, e))?;
        let strs = |f: &str| -> Vec<String> { j[f].as_array().map(|a| a.iter().filter_map(|x| x.as_str().map(|s| s.to_string())).collect()).unwrap_or_default() };
        let mut packs = vec![];
        for (n, p) in strs("k").iter().enumerate() {
            match keys.iter().position(|k| k == &format!("{}.pack", p)) {
                Some(pf) => {
                    labels[pf] = if n == 0 { format!("p{}", suffix) } else { format!("p{}.{}", suffix, n) };
                    packs.push(pf);
                }
                None => packs.push(usize::MAX),
            }
        }
        let mut needs = vec![];
        for rec in j["c"].as_array().cloned().unwrap_or_default() {
            if let Some(d) = rec.as_array().and_then(|r| r.last()).and_then(|d| d.as_str()) {
                if !content_less(d) {
                    needs.push(d.to_string());
                }
            }
        }
        blocks.push(Block { file, id: id.to_string(), parents: strs("p"), packs, needs });
    }
    if labels.iter().any(|l| l.starts_with('?')) || keys.len() != 6 {
        return Err(format!("shared-content history: unexpected item set {:?}", labels));
    }
    // is the scenario what it is meant to be?
    let idx = |l: &str| labels.iter().position(|x| x == l).unwrap();
    let rec_of_item_a = blocks[1].needs.iter().find(|d| contents[idx("p2b")].contains(*d)).cloned();
    let vacuous = match rec_of_item_a {
        None => Some("no value recorded by d2a is stored in p2b".to_string()),
        Some(d) if contents[idx("p2a")].contains(&d) => Some("A's own pack p2a also stores the shared value (no de-duplication)".to_string()),
        Some(_) => None,
    };
    let mut perm: Vec<usize> = (0..keys.len()).collect();
    perm.sort_by(|x, y| labels[*x].cmp(&labels[*y]));
    let pos = |old: usize| if old == usize::MAX { usize::MAX } else { perm.iter().position(|p| *p == old).unwrap() };
    for b in blocks.iter_mut() {
        b.file = pos(b.file);
        for p in b.packs.iter_mut() {
            *p = pos(*p);
        }
    }
    let h = Hist {
        name: "shared".into(),
        labels: perm.iter().map(|i| labels[*i].clone()).collect(),
        keys: perm.iter().map(|i| keys[*i].clone()).collect(),
        bytes: perm.iter().map(|i| bytes[*i].clone()).collect(),
        contents: perm.iter().map(|i| contents[*i].clone()).collect(),
        blocks,
    };
    Ok(Shared { h, a_pre, a_post, vacuous })
}

/// one delivery order of the shared-content history; after every delivered file refresh, then one case
/// `shared-content:<order>@<step>`: refresh is Ok; state == fresh Melda::new on the same files; state == state of the
/// causally AND content complete blocks (plus all delivered packs); read(None) does not panic; Applied blocks ==
/// complete blocks, none left Ready; with everything but d2b delivered the state is A's after committing d2a, with
/// everything delivered it is A's after melding B.
fn run_shared(sh: &Shared, memo: &mut HashMap<u32, Expect>, order: &[usize], out: &Out) {
    let h = &sh.h;
    let os = h.order_str(order);
    let input = input_of(h, order);
    out.begin(&format!("shared-content:{}", os), input.clone());
    let c = orch::mem();
    let mut r: Melda = match orch::open(&c) {
        Ok(r) => r,
        Err(e) => return out.fail("shared-content", &format!("shared-content:{}@0", os), input, &e),
    };
    let (d2a, p2b, d2b) = (h.idx("d2a").unwrap_or(0), h.idx("p2b").unwrap_or(0), h.idx("d2b").unwrap_or(0));
    let all = (1u32 << h.n()) - 1;
    let mut mask = 0u32;
    for (k, f) in order.iter().enumerate() {
        let step = k + 1;
        let id = format!("shared-content:{}@{}", os, step);
        let at = format!("after delivering {} (step {})", h.labels[*f], step);
        if let Err(e) = orch::put(&c, &h.keys[*f], &h.bytes[*f]) {
            return out.fail("driver", &id, input, &e);
        }
        mask |= 1 << f;
        let refreshed = orch::ge("refresh", || r.refresh());
        out.case(&id, mask & (1 << d2a) != 0 && mask & (1 << p2b) == 0);
        let ex = match expect(h, memo, mask) {
            Ok(e) => e,
            Err(e) => return out.fail("driver", &id, input, &e),
        };
        let s = orch::state(&r);
        let label = |bid: &str| h.blocks.iter().find(|b| b.id == bid).map(|b| h.labels[b.file].clone()).unwrap_or_else(|| bid.to_string());
        let verdict = (|| -> Result<(), String> {
            refreshed.clone()?;
            if s["read"].get("panic").is_some() {
                return Err(format!("read(None) panics: {}", s["read"]["panic"].as_str().unwrap_or("").lines().next().unwrap_or("")));
            }
            let st = orch::g(|| r.vf_delta_statuses()).map_err(|p| format!("panic reading the block statuses: {}", p))?;
            let applied: BTreeSet<String> = st.iter().filter(|(_, s)| s == "Applied").map(|(i, _)| i.clone()).collect();
            if applied != ex.complete {
                return Err(format!(
                    "Applied blocks {:?} but the blocks that are causally complete AND whose recorded values are all in delivered packs are {:?}",
                    applied.iter().map(|i| label(i)).collect::<Vec<String>>(),
                    ex.complete.iter().map(|i| label(i)).collect::<Vec<String>>()
                ));
            }
            if let Some((i, _)) = st.iter().find(|(_, s)| s == "Ready") {
                return Err(format!("block {} left in status Ready after refresh", label(i)));
            }
            if s != ex.reference {
                return Err(format!("replica state vs state of the complete blocks; {}", orch::first_difference(&s, &ex.reference, &orch::STATE_KEYS).unwrap_or_default()));
            }
            if s != ex.fresh {
                return Err(format!("refreshed replica vs freshly opened replica on the same files; {}", orch::first_difference(&s, &ex.fresh, &orch::STATE_KEYS).unwrap_or_else(|| ex.fresh.to_string())));
            }
            if mask == all & !(1 << d2b) && s != sh.a_pre {
                return Err(format!("all of A's own files delivered, state vs A after committing d2a; {}", orch::first_difference(&s, &sh.a_pre, &orch::STATE_KEYS).unwrap_or_default()));
            }
            if mask == all && s != sh.a_post {
                return Err(format!("everything delivered, state vs A after melding B; {}", orch::first_difference(&s, &sh.a_post, &orch::STATE_KEYS).unwrap_or_default()));
            }
            Ok(())
        })();
        if let Err(w) = verdict {
            out.fail("shared-content", &id, input.clone(), &format!("{}: {}", at, w));
            return;
        }
    }
}

fn shared_orders(h: &Hist, thorough: bool) -> Vec<Vec<usize>> {
    if thorough {
        return orch::permutations(h.n());
    }
    // the four files of A's own blocks in every order (p2b absent throughout), then p2b and d2b in both orders
    let own: Vec<usize> = ["d1", "p1", "d2a", "p2a"].iter().filter_map(|l| h.idx(l)).collect();
    let tail: Vec<usize> = ["p2b", "d2b"].iter().filter_map(|l| h.idx(l)).collect();
    let mut out = vec![];
    for p in orch::permutations(own.len()) {
        for t in orch::permutations(tail.len()) {
            let mut o: Vec<usize> = p.iter().map(|i| own[*i]).collect();
            o.extend(t.iter().map(|i| tail[*i]));
            out.push(o);
        }
    }
    out
}

fn shared_family(thorough: bool, out: &Out) {
    out.begin("shared-content:history", json!({"history": "shared"}));
    let sh = match build_shared() {
        Ok(s) => s,
        Err(e) => {
            out.case("history:shared", true);
            out.fail("history", "history:shared", json!({"history": "shared"}), &e);
            return;
        }
    };
    out.case("history:shared", true);
    if let Some(why) = &sh.vacuous {
        out.note(&format!("shared-content SKIPPED (scenario vacuous: {})", why));
        out.not_exhaustive();
        return;
    }
    let orders = shared_orders(&sh.h, thorough);
    out.note(&format!("shared-content: {} delivery orders of the 6 files", orders.len()));
    let mut memo: HashMap<u32, Expect> = HashMap::new();
    for o in &orders {
        run_shared(&sh, &mut memo, o, out);
    }
}

fn variants(h: &Hist) -> Vec<(String, Listing)> {
    // child blocks first: last block of the history first, ..., origin last (both the stem and the full key form)
    let mut front = vec![];
    for b in h.blocks.iter().rev() {
        front.push(b.id.clone());
        front.push(h.keys[b.file].clone());
    }
    vec![
        ("reversed".to_string(), Listing::Reversed),
        ("rotated1".to_string(), Listing::Rotated(1)),
        ("rotated-half".to_string(), Listing::Rotated(h.n() / 2)),
        ("sorted-desc".to_string(), Listing::SortedDesc),
        ("child-first".to_string(), Listing::First(front)),
    ]
}

fn listing_check(h: &Hist, mask: u32, full: bool, out: &Out) {
    let files: Vec<usize> = (0..h.n()).filter(|i| mask & (1 << i) != 0).collect();
    let plain = match h.adapter_with(files.iter().cloned()) {
        Ok(a) => a,
        Err(_) => return,
    };
    let want = opened_state(&plain);
    for (vname, how) in variants(h) {
        let id = if full { format!("listing:{}:{}", vname, h.name) } else { format!("listing:{}:{}:{}", vname, h.name, h.mask_str(mask)) };
        let input = json!({"history": h.name, "listing": vname, "files": files.iter().map(|i| h.labels[*i].clone()).collect::<Vec<String>>()});
        out.begin(&id, input.clone());
        out.case(&id, files.len() >= 2);
        // fresh open through the reordering adapter
        let wrapped = orch::dynof(ListingAdapter { inner: plain.clone(), how: how.clone() });
        let got = opened_state(&wrapped);
        if got != want {
            let d = orch::first_difference(&got, &want, &orch::STATE_KEYS).unwrap_or_else(|| format!("{} vs {}", got, want));
            out.fail("listing", &id, input, &format!("fresh replica through the {} listing differs from the plain listing; {}", vname, d));
            continue;
        }
        // one refresh that sees all files at once, through the reordering adapter
        let inner = orch::mem();
        let wrapped = orch::dynof(ListingAdapter { inner: inner.clone(), how });
        let got = match orch::open(&wrapped) {
            Err(e) => json!({ "open": e }),
            Ok(mut r) => {
                for f in &files {
                    let _ = orch::put(&inner, &h.keys[*f], &h.bytes[*f]);
                }
                match orch::ge("refresh", || r.refresh()) {
                    Ok(()) => orch::state(&r),
                    Err(e) => json!({ "refresh": e }),
                }
            }
        };
        if got != want {
            let d = orch::first_difference(&got, &want, &orch::STATE_KEYS).unwrap_or_else(|| format!("{} vs {}", got, want));
            out.fail("listing", &id, input, &format!("replica refreshed once through the {} listing differs from a fresh replica on the plain listing; {}", vname, d));
        }
    }
}

fn work(thorough: bool, seed: u64, out: &Out) {
    let mut rng = Rng::new(seed);
    let base = match build(false, false) {
        Ok(h) => h,
        Err(e) => {
            out.case("history:base", true);
            out.fail("history", "history:base", json!({"history": "base"}), &e);
            return;
        }
    };
    out.case("history:base", true);
    let mut memo: HashMap<u32, Expect> = HashMap::new();
    let n = base.n();
    if !thorough {
        // first block and its pack delivered first (both orders), then permutations of the other files
        let (d1, p1) = match (base.idx("d1"), base.idx("p1")) {
            (Some(d), Some(p)) => (d, p),
            _ => {
                out.fail("history", "history:base", json!({"history": "base"}), "labels d1 / p1 not found among A's items");
                return;
            }
        };
        let rest: Vec<usize> = (0..n).filter(|i| *i != d1 && *i != p1).collect();
        let mut perms = orch::permutations(rest.len());
        let total = perms.len();
        rng.shuffle(&mut perms);
        perms.truncate(600);
        for (i, p) in perms.iter().enumerate() {
            let mut order = if i % 2 == 0 { vec![d1, p1] } else { vec![p1, d1] };
            order.extend(p.iter().map(|j| rest[*j]));
            run_order(&base, &mut memo, &order, out);
        }
        // a few orders that do not start with the first block
        let mut extra = 0;
        for _ in 0..120 {
            let mut order: Vec<usize> = (0..n).collect();
            rng.shuffle(&mut order);
            run_order(&base, &mut memo, &order, out);
            extra += 1;
        }
        out.note(&format!("base history: {} files; {} of {} prefix orders, {} seeded full permutations", n, perms.len(), total, extra));
        if perms.len() < total {
            out.not_exhaustive();
        }
        listing_check(&base, (1u32 << n) - 1, true, out);
        for _ in 0..6 {
            let mask = (rng.next() as u32) & ((1u32 << n) - 1);
            listing_check(&base, mask, false, out);
        }
        // the history extended by a block without pack
        match build(true, false) {
            Err(e) => {
                out.case("history:long", true);
                out.fail("history", "history:long", json!({"history": "long"}), &e);
            }
            Ok(long) => {
                out.case("history:long", true);
                let mut memo: HashMap<u32, Expect> = HashMap::new();
                let n = long.n();
                for _ in 0..150 {
                    let mut order: Vec<usize> = (0..n).collect();
                    rng.shuffle(&mut order);
                    run_order(&long, &mut memo, &order, out);
                }
                out.note(&format!("long history: {} files, 150 seeded full permutations", n));
                listing_check(&long, (1u32 << n) - 1, true, out);
            }
        }
        damage_family(false, &mut rng, 1, out);
        shared_family(false, out);
        truncated_family(false, &mut rng, 1, out);
        return;
    }
    // thorough: the orders are spread over sub-workers (each with its own memo of expected states)
    let workers: usize = std::env::var("MELDA_VERIF_WORKERS").ok().and_then(|s| s.parse().ok()).unwrap_or(3);
    let spread = |h: &Arc<Hist>, orders: Vec<Vec<usize>>, out: &Out| {
        let h = h.clone();
        orch::fan_out(out, workers, orders, move |part: Vec<Vec<usize>>, out: &Out| {
            let mut memo: HashMap<u32, Expect> = HashMap::new();
            for o in &part {
                run_order(&h, &mut memo, o, out);
            }
        });
    };
    let seeded = |n: usize, count: usize, rng: &mut Rng| -> Vec<Vec<usize>> {
        let mut seen: BTreeSet<Vec<usize>> = BTreeSet::new();
        let mut out = vec![];
        while out.len() < count {
            let mut order: Vec<usize> = (0..n).collect();
            rng.shuffle(&mut order);
            if seen.insert(order.clone()) {
                out.push(order);
            }
        }
        out
    };
    let base = Arc::new(base);
    if n <= 8 {
        let orders = orch::permutations(n);
        out.note(&format!("base history: {} files, all {} delivery orders", n, orders.len()));
        spread(&base, orders, out);
    } else {
        out.note(&format!("base history: {} files, 20000 distinct seeded delivery orders", n));
        out.not_exhaustive();
        spread(&base, seeded(n, 20000, &mut rng), out);
    }
    for mask in 0..(1u32 << n) {
        listing_check(&base, mask, mask == (1u32 << n) - 1, out);
    }
    match build(true, false) {
        Err(e) => {
            out.case("history:long", true);
            out.fail("history", "history:long", json!({"history": "long"}), &e);
        }
        Ok(long) => {
            out.case("history:long", true);
            let long = Arc::new(long);
            let n = long.n();
            if n <= 8 {
                let orders = orch::permutations(n);
                out.note(&format!("long history: {} files, all {} delivery orders", n, orders.len()));
                spread(&long, orders, out);
            } else {
                out.note(&format!("long history: {} files, 20000 distinct seeded delivery orders", n));
                out.not_exhaustive();
                spread(&long, seeded(n, 20000, &mut rng), out);
            }
            listing_check(&long, (1u32 << n) - 1, true, out);
            for _ in 0..64 {
                let mask = (rng.next() as u32) & ((1u32 << n) - 1);
                listing_check(&long, mask, false, out);
            }
        }
    }
    damage_family(true, &mut rng, workers, out);
    shared_family(true, out);
    truncated_family(true, &mut rng, workers, out);
}

pub fn run(thorough: bool, seed: u64) -> Report {
    let mut rep = Report::new(
        "delivery",
        &(if thorough {
            "one fixed source history (A: d1; B melds; A: d2a || B: d2b; A melds, d3 with parents {d2a,d2b}; 4 blocks + 4 packs = 8 item files): ALL 8! delivery orders of the files into an empty adapter observed by one long-lived replica, refresh + 3 checks after every delivered file; the same history extended by a pack-less block d4 (9 files): 20000 distinct seeded orders; listing-order variants (reversed, rotated by 1, rotated by half, sorted descending, child blocks first) on every subset of the 8 files and on the full set + 64 seeded subsets of the 9 files; damage-after-index: every pack listed by a block (p1, p2a, p2b, p3) x 18 damages (xor-1 at the middle and at 8 evenly spread positions, 5 replacement bytes incl. first and last byte, truncation to 0 / half / len-1, deletion) x {right after indexing, just before the block arrives} x 60 seeded orders with the pack before its block; shared-content: all 720 orders of its 6 files; truncated-then-completed: each of the 9 files of the long history x completion after 0 / 1 / 3 further files / at the end x 25 seeded orders"
        } else {
            "one fixed source history (A: d1; B melds; A: d2a || B: d2b; A melds, d3 with parents {d2a,d2b}; 4 blocks + 4 packs = 8 item files): 600 seeded orders out of the 720 that deliver d1 and its pack first (both ways) followed by a permutation of the other 6 files, plus 120 seeded permutations of all 8 files, plus 150 seeded permutations of the 9 files of the same history extended by a pack-less block d4, into an empty adapter observed by one long-lived replica, refresh + 3 checks after every delivered file; listing-order variants (reversed, rotated by 1, rotated by half, sorted descending, child blocks first) on the full sets and 6 seeded subsets; damage-after-index: every pack listed by a block (p1, p2a, p2b, p3) x {one byte xor 1, truncated to half, deleted} x {right after indexing, just before the block arrives} x 8 seeded orders with the pack before its block; shared-content: the 4 files of A's own blocks in all 24 orders followed by p2b, d2b in both orders (48 orders of 6 files); truncated-then-completed: each of the 9 files of the long history x completion after 0 / 1 / 3 further files / at the end x 3 seeded orders"
        })
        .to_string(),
        "enumeration of delivery orders (seeded where stated); one case per order, step and check (refresh-vs-reload / causal / status), per listing variant and file set, per damage scenario and per truncated-then-completed scenario (all their steps), and per shared-content order and step; non-trivial = a delivered block is causally incomplete at this step or was at the previous one; 10 s watchdog per worker thread (thorough: orders spread over 3 threads)",
    );
    if std::env::var_os("RAYON_NUM_THREADS").is_none() {
        std::env::set_var("RAYON_NUM_THREADS", "2");
    }
    let mut classes = FailureClasses::new(2);
    orch::supervise(&mut rep, &mut classes, move |out| work(thorough, seed, out));
    classes.summary("delivery");
    rep
}

pub fn replay(case: &Value) -> Value {
    let inp = case["input"].clone();
    if inp["history"].as_str() == Some("shared") {
        let fails = orch::replay_collect(move |out| match build_shared() {
            Err(e) => out.fail("history", "history:shared", json!({}), &e),
            Ok(sh) => {
                let order: Option<Vec<usize>> = inp["order"].as_array().and_then(|a| a.iter().map(|l| l.as_str().and_then(|l| sh.h.idx(l))).collect());
                if let (Some(order), None) = (order, &sh.vacuous) {
                    run_shared(&sh, &mut HashMap::new(), &order, out);
                }
            }
        });
        return orch::replay_verdict(case, fails);
    }
    let uniq = inp["history"].as_str() == Some("damage");
    let long = uniq || inp["history"].as_str() == Some("long");
    let fails = orch::replay_collect(move |out| {
        let h = match build(long, uniq) {
            Ok(h) => h,
            Err(e) => {
                out.fail("history", &format!("history:{}", if long { "long" } else { "base" }), json!({}), &e);
                return;
            }
        };
        let labels = |key: &str| -> Option<Vec<usize>> { inp[key].as_array()?.iter().map(|l| l.as_str().and_then(|l| h.idx(l))).collect() };
        if let (Some(order), Some(item)) = (labels("order"), inp["truncated"].as_str().and_then(|l| h.idx(l))) {
            let delay = inp["delay"].as_u64().map(|d| d as usize).unwrap_or(usize::MAX);
            run_truncated(&h, &mut HashMap::new(), &TruncJob { item, delay, order }, out);
        } else if let (Some(order), Some(pack), Some(dmg)) = (labels("order"), inp["pack"].as_str().and_then(|l| h.idx(l)), Dmg::from_json(&inp["damage"])) {
            let mut memo = HashMap::new();
            run_damage(&h, &mut memo, &DamageJob { pack, dmg, late: inp["late"].as_bool().unwrap_or(false), order }, out);
        } else if let Some(order) = labels("order") {
            let mut memo = HashMap::new();
            run_order(&h, &mut memo, &order, out);
        } else if let Some(files) = labels("files") {
            let mask = files.iter().fold(0u32, |m, f| m | (1 << f));
            listing_check(&h, mask, mask == (1u32 << h.n()) - 1, out);
        }
    });
    orch::replay_verdict(case, fails)
}

