//! C02/C05 (revision identifiers): src/revision.rs — constructors, Display, `from`, `cmp`, `Hash`.
//! Executable contract, checked on the REAL `Revision`:
//!  (a) text: "{index}-{digest}" if index <= 1 else "{index}-{digest}_{tail}" (tail "" when absent)
//!  (b) tail == first 7 hex chars of sha256(parent text); index/digest as given; constructors are pure
//!  (c) `Revision::from(text)` is Ok, equal to the revision, and prints the same text
//!  (d) `cmp` == spec_cmp (markers "r" lowest and ordered by text among themselves; otherwise by
//!      numeric index, ties by byte-wise text)
//!  (e) order laws: reflexive, Equal <=> ==, antisymmetric, transitive, partial_cmp == Some(cmp)
//!  (f) equal revisions hash equal
//! Domain: revisions built ONLY through the real constructors, described by a `Recipe`.
use crate::Report;
use melda::vf::utils::digest_string;
use melda::vf::Revision;
use serde_json::{json, Value};
use std::cmp::Ordering;
use std::collections::hash_map::DefaultHasher;
use std::hash::{Hash, Hasher};
use std::rc::Rc;

const HEX_A: &str = "b94d27b9934d3e08a52e52d7da7dabfac484efe37a5380ee9088f7ace2efcde9";
const HEX_B: &str = "ba7816bf8f01cfea414140de5dae2223b00361a396177a9cb410ff61f20015ad";
const ROOT_DIGESTS: [&str; 7] = [HEX_A, HEX_B, "d", "r", "e", "1f600", "abc"];
// digests in prefix relation with each other and with the marker letters: `_` sorts between digits and lower-case letters,
// so comparing identifier TEXT differs from comparing (digest, tail) field-wise exactly on such pairs
// "ver_2" / "a_b": application-supplied digests (reserved field "#") that contain the separator `_`; at index >= 2 the printed form
// `<index>-<digest>_<tail>` must still split at the LAST `_` (seed C19-m7: a parser splitting at the first one)
const CHILD_DIGESTS: [&str; 8] = [HEX_B, "abc", "ab", "d5", "da", "e0", "ver_2", "a_b"];
const FORCED: [u32; 9] = [2, 9, 10, 11, 99, 100, 999, 1000, u32::MAX - 1];

#[derive(Clone, Debug)]
pub enum Recipe {
    Root(String),
    Upd(String, Rc<Recipe>),
    Del(Rc<Recipe>),
    Res(Rc<Recipe>),
    Emp(Rc<Recipe>),
    New(u32, String, Rc<Recipe>),
}

impl Recipe {
    pub fn to_json(&self) -> Value {
        match self {
            Recipe::Root(d) => json!({"op": "root", "d": d}),
            Recipe::Upd(d, p) => json!({"op": "upd", "d": d, "p": p.to_json()}),
            Recipe::Del(p) => json!({"op": "del", "p": p.to_json()}),
            Recipe::Res(p) => json!({"op": "res", "p": p.to_json()}),
            Recipe::Emp(p) => json!({"op": "emp", "p": p.to_json()}),
            Recipe::New(i, d, p) => json!({"op": "new", "idx": i, "d": d, "p": p.to_json()}),
        }
    }
    pub fn from_json(v: &Value) -> Option<Recipe> {
        let p = || Recipe::from_json(&v["p"]).map(Rc::new);
        let d = || v["d"].as_str().map(|s| s.to_string());
        match v["op"].as_str()? {
            "root" => Some(Recipe::Root(d()?)),
            "upd" => Some(Recipe::Upd(d()?, p()?)),
            "del" => Some(Recipe::Del(p()?)),
            "res" => Some(Recipe::Res(p()?)),
            "emp" => Some(Recipe::Emp(p()?)),
            "new" => Some(Recipe::New(v["idx"].as_u64()? as u32, d()?, p()?)),
            _ => None,
        }
    }
    /// build through the real constructors only
    pub fn build(&self) -> Revision {
        match self {
            Recipe::Root(d) => Revision::new(1, d.clone(), None),
            Recipe::Upd(d, p) => Revision::new_updated(d.clone(), &p.build()),
            Recipe::Del(p) => Revision::new_deleted(&p.build()),
            Recipe::Res(p) => Revision::new_resolved(&p.build()),
            Recipe::Emp(p) => Revision::new_empty(&p.build()),
            Recipe::New(i, d, p) => Revision::new(*i, d.clone(), Some(&p.build())),
        }
    }
    fn parent(&self) -> Option<&Rc<Recipe>> {
        match self {
            Recipe::Root(_) => None,
            Recipe::Upd(_, p) | Recipe::Del(p) | Recipe::Res(p) | Recipe::Emp(p) | Recipe::New(_, _, p) => Some(p),
        }
    }
    /// SPEC (independent of the library's Display): (index, digest, text)
    pub fn spec(&self) -> (u32, String, String) {
        let (index, digest) = match self {
            Recipe::Root(d) => (1, d.clone()),
            Recipe::Upd(d, p) => (p.spec().0 + 1, d.clone()),
            Recipe::Del(p) => (p.spec().0 + 1, "d".to_string()),
            Recipe::Res(p) => (p.spec().0 + 1, "r".to_string()),
            Recipe::Emp(p) => (p.spec().0 + 1, "e".to_string()),
            Recipe::New(i, d, _) => (*i, d.clone()),
        };
        let tail = match self.parent() {
            Some(p) => digest_string(&p.spec().2)[..7].to_string(),
            None => String::new(),
        };
        let text = if index <= 1 { format!("{}-{}", index, digest) } else { format!("{}-{}_{}", index, digest, tail) };
        (index, digest, text)
    }
}

fn children(p: &Rc<Recipe>) -> Vec<Recipe> {
    let mut v = vec![];
    for d in CHILD_DIGESTS {
        v.push(Recipe::Upd(d.to_string(), p.clone()));
    }
    v.push(Recipe::Del(p.clone()));
    v.push(Recipe::Res(p.clone()));
    v.push(Recipe::Emp(p.clone()));
    v
}

pub fn pool(depth: usize) -> Vec<Rc<Recipe>> {
    let mut all: Vec<Rc<Recipe>> = ROOT_DIGESTS.iter().map(|d| Rc::new(Recipe::Root(d.to_string()))).collect();
    let mut frontier = all.clone();
    for _ in 0..depth {
        let mut next = vec![];
        for p in &frontier {
            for c in children(p) {
                next.push(Rc::new(c));
            }
        }
        all.extend(next.iter().cloned());
        frontier = next;
    }
    // forced indices (decimal-length boundaries), on a root parent and on a depth-1 parent; terminal
    let parents = [all[0].clone(), all[2].clone(), all[7].clone()];
    for (k, idx) in FORCED.iter().enumerate() {
        for (j, p) in parents.iter().enumerate() {
            let d = ["abc", HEX_A, "r", "d"][(k + j) % 4];
            all.push(Rc::new(Recipe::New(*idx, d.to_string(), p.clone())));
        }
    }
    all
}

fn hash_of(r: &Revision) -> u64 {
    let mut h = DefaultHasher::new();
    r.hash(&mut h);
    h.finish()
}

/// SPEC of the order
fn spec_cmp(a: &(u32, String, String), b: &(u32, String, String)) -> Ordering {
    let (ar, br) = (a.1 == "r", b.1 == "r");
    if ar && br {
        a.2.as_bytes().cmp(b.2.as_bytes())
    } else if ar {
        Ordering::Less
    } else if br {
        Ordering::Greater
    } else if a.0 != b.0 {
        a.0.cmp(&b.0)
    } else {
        a.2.as_bytes().cmp(b.2.as_bytes())
    }
}

pub fn check_unary(rc: &Recipe) -> Result<(), String> {
    let rc1 = rc.clone();
    let built = super::guarded(move || {
        let r = rc1.build();
        let r2 = rc1.build();
        let t = r.to_string();
        let t2 = r2.to_string();
        let back = Revision::from(&t).map_err(|e| e.to_string());
        let back_text = back.as_ref().ok().map(|b| b.to_string());
        (r, r2, t, t2, back, back_text)
    });
    let (r, r2, t, t2, back, back_text) = built.map_err(|p| format!("panic: {}", p))?;
    let (index, digest, text) = rc.spec();
    if r.index() != index || r.digest() != &digest {
        return Err(format!("index/digest {}/{} differ from the given {}/{}", r.index(), r.digest(), index, digest));
    }
    if t != text {
        return Err(format!("to_string() = {:?}, spec text = {:?}", t, text));
    }
    if r != r2 || t != t2 || hash_of(&r) != hash_of(&r2) {
        return Err("same constructor arguments gave different revisions/text/hash".to_string());
    }
    match back {
        Err(e) => return Err(format!("Revision::from({:?}) is Err({})", t, e)),
        Ok(b) => {
            if b != r {
                return Err(format!("Revision::from({:?}) != original revision (parsed {:?})", t, b));
            }
            if back_text.as_deref() != Some(t.as_str()) {
                return Err(format!("Revision::from({:?}) prints {:?}", t, back_text));
            }
            if hash_of(&b) != hash_of(&r) {
                return Err("parsed revision == original but hashes differ".to_string());
            }
            if b.cmp(&r) != Ordering::Equal || r.cmp(&r) != Ordering::Equal {
                return Err("cmp of equal revisions is not Equal".to_string());
            }
        }
    }
    Ok(())
}

pub fn check_pair(
    a: &Revision, sa: &(u32, String, String), b: &Revision, sb: &(u32, String, String),
) -> Result<Ordering, String> {
    let (a1, b1) = (a.clone(), b.clone());
    let got = super::guarded(move || (a1.cmp(&b1), b1.cmp(&a1), a1.partial_cmp(&b1), a1 == b1, hash_of(&a1), hash_of(&b1)));
    let (ab, ba, pab, eq, ha, hb) = got.map_err(|p| format!("panic: {}", p))?;
    let want = spec_cmp(sa, sb);
    if ab != want {
        return Err(format!("cmp({}, {}) = {:?}, spec {:?}", sa.2, sb.2, ab, want));
    }
    if pab != Some(ab) {
        return Err(format!("partial_cmp {:?} != Some(cmp) {:?}", pab, ab));
    }
    if ba != ab.reverse() {
        return Err(format!("antisymmetry: cmp(a,b)={:?} cmp(b,a)={:?} for {} , {}", ab, ba, sa.2, sb.2));
    }
    if (ab == Ordering::Equal) != eq {
        return Err(format!("cmp == Equal is {} but a == b is {} for {} , {}", ab == Ordering::Equal, eq, sa.2, sb.2));
    }
    if eq && ha != hb {
        return Err(format!("equal revisions hash differently: {} , {}", sa.2, sb.2));
    }
    Ok(ab)
}

pub fn run(thorough: bool, _seed: u64) -> Report {
    let depth = if thorough { 3 } else { 2 };
    let mut rep = Report::new(
        "revision",
        &format!(
            "pool: 7 roots, children via new_updated(6 digests incl. prefix-related ones)/new_deleted/new_resolved/new_empty to depth {}, plus Revision::new(idx,d,Some(p)) for idx in {:?} on 3 parents; all members, all ordered pairs, all triples of a sub-pool (<= ~2M triples)",
            depth, FORCED
        ),
        "exhaustive enumeration of pool members (unary checks a,b,c), ordered pairs (d,e,f) and sub-pool triples (transitivity); non-trivial = pair with equal index or a marker digest (d/r/e) involved; unary case non-trivial when index > 1",
    );
    let recipes = pool(depth);
    let specs: Vec<(u32, String, String)> = recipes.iter().map(|r| r.spec()).collect();
    let mut revs: Vec<Option<Revision>> = vec![];
    for (i, rc) in recipes.iter().enumerate() {
        let key = format!("u{}", i);
        rep.case(&key, specs[i].0 > 1);
        if let Err(w) = check_unary(rc) {
            rep.fail(&format!("unary:{}", specs[i].2), json!({"kind": "unary", "a": rc.to_json()}), &w);
        }
        let rc2 = rc.clone();
        revs.push(super::guarded(move || rc2.build()).ok());
    }
    let marker = |s: &(u32, String, String)| s.1 == "d" || s.1 == "r" || s.1 == "e";
    let n = recipes.len();
    for i in 0..n {
        let a = match &revs[i] {
            Some(a) => a,
            None => continue,
        };
        for j in 0..n {
            let b = match &revs[j] {
                Some(b) => b,
                None => continue,
            };
            let key = format!("p{}|{}", i, j);
            rep.case(&key, specs[i].0 == specs[j].0 || marker(&specs[i]) || marker(&specs[j]));
            if let Err(w) = check_pair(a, &specs[i], b, &specs[j]) {
                rep.fail(
                    &format!("pair:{}|{}", specs[i].2, specs[j].2),
                    json!({"kind": "pair", "a": recipes[i].to_json(), "b": recipes[j].to_json()}),
                    &w,
                );
            }
        }
    }
    // transitivity over a sub-pool: all resolution markers first (up to 40), then a stride over the rest
    let cap = 126usize;
    let mut sub: Vec<usize> = (0..n).filter(|i| specs[*i].1 == "r" && revs[*i].is_some()).take(40).collect();
    let rest: Vec<usize> = (0..n).filter(|i| !sub.contains(i) && revs[*i].is_some()).collect();
    let want = cap.saturating_sub(sub.len()).max(1);
    let stride = (rest.len() / want).max(1);
    sub.extend(rest.iter().step_by(stride).take(want));
    let m = sub.len();
    let mut mat = vec![Ordering::Equal; m * m];
    for (x, i) in sub.iter().enumerate() {
        for (y, j) in sub.iter().enumerate() {
            let (a, b) = (revs[*i].clone().unwrap(), revs[*j].clone().unwrap());
            mat[x * m + y] = super::guarded(move || a.cmp(&b)).unwrap_or(Ordering::Equal);
        }
    }
    for x in 0..m {
        for y in 0..m {
            for z in 0..m {
                let key = format!("t{}|{}|{}", sub[x], sub[y], sub[z]);
                let (xy, yz, xz) = (mat[x * m + y], mat[y * m + z], mat[x * m + z]);
                rep.case(&key, xy != Ordering::Equal && yz != Ordering::Equal && specs[sub[x]].0 == specs[sub[z]].0);
                let bad = (xy != Ordering::Greater && yz != Ordering::Greater && xz == Ordering::Greater)
                    || (xy == Ordering::Less && yz != Ordering::Greater && xz != Ordering::Less)
                    || (xy != Ordering::Greater && yz == Ordering::Less && xz != Ordering::Less);
                if bad {
                    rep.fail(
                        &format!("triple:{}|{}|{}", specs[sub[x]].2, specs[sub[y]].2, specs[sub[z]].2),
                        json!({"kind": "triple", "a": recipes[sub[x]].to_json(), "b": recipes[sub[y]].to_json(), "c": recipes[sub[z]].to_json()}),
                        &format!("transitivity: cmp(a,b)={:?} cmp(b,c)={:?} but cmp(a,c)={:?}", xy, yz, xz),
                    );
                }
            }
        }
    }
    rep
}

pub fn replay(case: &Value) -> Value {
    let inp = &case["input"];
    let get = |k: &str| Recipe::from_json(&inp[k]);
    let res: Result<(), String> = match inp["kind"].as_str() {
        Some("unary") => match get("a") {
            Some(a) => check_unary(&a),
            None => return json!({"reproduced": false, "error": "bad input"}),
        },
        Some("pair") => match (get("a"), get("b")) {
            (Some(a), Some(b)) => check_pair(&a.build(), &a.spec(), &b.build(), &b.spec()).map(|_| ()),
            _ => return json!({"reproduced": false, "error": "bad input"}),
        },
        Some("triple") => match (get("a"), get("b"), get("c")) {
            (Some(a), Some(b), Some(c)) => {
                let (ra, rb, rc) = (a.build(), b.build(), c.build());
                let (xy, yz, xz) = (ra.cmp(&rb), rb.cmp(&rc), ra.cmp(&rc));
                let bad = (xy != Ordering::Greater && yz != Ordering::Greater && xz == Ordering::Greater)
                    || (xy == Ordering::Less && yz != Ordering::Greater && xz != Ordering::Less)
                    || (xy != Ordering::Greater && yz == Ordering::Less && xz != Ordering::Less);
                if bad { Err(format!("transitivity: {:?} {:?} {:?}", xy, yz, xz)) } else { Ok(()) }
            }
            _ => return json!({"reproduced": false, "error": "bad input"}),
        },
        _ => return json!({"reproduced": false, "error": "bad input"}),
    };
    match res {
        Ok(()) => json!({"reproduced": false}),
        Err(w) => json!({"reproduced": true, "what": w}),
    }
}
