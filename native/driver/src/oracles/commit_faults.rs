//! Bounded stand-in for src/melda.rs `commit` under failing adapter writes (public API only).
//! Property: commit is atomic w.r.t. write failures; after a failed commit the staged changes are still
//! present and a retry yields the same durable result.
//!
//! A fault-injecting adapter over a shared MemoryAdapter fails the n-th `write_object` call (optionally counting
//! only keys with a given suffix) for n in a programmed set, before anything is stored.  A scenario is
//!   initial document D (committed cleanly), optional cleanly committed pre-edit, staged edit E, metadata I.
//! With the faults armed `commit(I)` is called until no fault fires any more (at most |set|+1 attempts):
//!   result@k   attempt k returns Err iff one of its writes failed (Ok(Some(_)) otherwise)
//!   after every FAILED attempt k:
//!   staging@k  has_staging() is still true          stage@k   the change records of stage() equal those before the first attempt
//!   anchors@k  get_anchors() unchanged              read@k    read(None) unchanged
//!   reopen@k   a fresh Melda::new on the underlying MemoryAdapter shows the complete PREVIOUS state
//!              (the state a fresh replica showed before the edit was staged) — never a mixture
//!   then the faults are cleared and, if the edit is not committed yet,
//!   retry      commit(I) returns Ok(Some(_))
//!   retry-reopen          a fresh Melda::new on the underlying adapter has the same objects, winners, number of
//!                         anchors and read(None) as the committing replica
//!   retry-vs-uninterrupted  objects, winners and read(None) equal those of an uninterrupted run of the same
//!                         edits on another adapter (block ids may differ)
//! Documents keep arrays single-writer (one replica only), so no array conflict can arise; every scenario runs
//! in a worker thread under a 10 s watchdog.
use super::orch::{self, Dyn, FaultAdapter, FaultPlan, Out};
use super::FailureClasses;
use crate::Report;

/// the change-record part of an exported stage, as a sorted list of texts
fn changes_only(v: &serde_json::Value) -> Vec<String> {
    let c = v.get("ok").and_then(|x| x.get("c")).and_then(|x| x.as_array()).cloned().unwrap_or_default();
    let mut out: Vec<String> = c.iter().map(|x| x.to_string()).collect();
    out.sort();
    out
}
use melda::melda::Melda;
use serde_json::{json, Map, Value};
use std::collections::BTreeSet;
use std::sync::{Arc, Mutex};

const F: &str = "\u{266D}";

fn k(s: &str) -> String {
    format!("{}{}", s, F)
}

fn init_doc(i: usize) -> Value {
    let mut m = Map::new();
    match i {
        0 => {
            m.insert("title".into(), json!("t"));
            m.insert(k("a"), json!({"_id": "o1", "v": 1}));
            m.insert(k("b"), json!({"_id": "o2", "v": 1}));
            m.insert(k("list"), json!([{"_id": "i1", "n": 1}, {"_id": "i2", "n": 2}]));
        }
        1 => {
            m.insert("title".into(), json!("a}b{\"c"));
            m.insert(k("a"), json!({"_id": "o1", "s": "é\\"}));
            m.insert(k("b"), json!({"_id": "o2", "v": [1, 2.5, -3]}));
        }
        _ => {
            let mut inner = Map::new();
            inner.insert("_id".into(), json!("o1"));
            inner.insert(k("in"), json!({"_id": "o1x", "v": 1}));
            m.insert(k("a"), Value::Object(inner));
            m.insert(k("b"), json!({"_id": "o2", "v": 1}));
            m.insert(k("list"), json!([{"_id": "i1", "n": 1}]));
        }
    }
    Value::Object(m)
}

const EDITS: [&str; 6] = ["update", "mix", "delete", "array", "create", "twice"];

/// stages edit `e` on `m`; `doc` is the document as last submitted with update() and is kept up to date
fn apply_edit(m: &Melda, doc: &mut Value, e: usize, tag: &str) -> Result<(), String> {
    let upd = |m: &Melda, d: &Value| orch::ge("update", || m.update(orch::obj(d.clone()))).map(|_| ());
    match EDITS[e] {
        "update" => {
            doc[k("a")]["z"] = json!(format!("changed}}{}", tag));
            upd(m, doc)
        }
        "mix" => {
            doc[k("a")]["z"] = json!(format!("mixed{}", tag));
            doc.as_object_mut().unwrap().remove(&k("b"));
            doc[k("n")] = json!({"_id": format!("o9{}", tag), "v": 9});
            upd(m, doc)
        }
        "delete" => orch::ge("delete_object", || m.delete_object("o2")).and_then(|r| r.map(|_| ()).ok_or_else(|| "delete_object(o2) staged nothing".to_string())),
        "array" => {
            doc[k("list")] = json!([{"_id": "i2", "n": 2}, {"_id": "i1", "n": 1}, {"_id": format!("i3{}", tag), "n": 3}]);
            upd(m, doc)
        }
        "create" => orch::ge("create_object", || m.create_object(&format!("x1{}", tag), orch::obj(json!({"k": 1, "s": "q\"}"})))).map(|_| ()),
        _ => {
            doc[k("a")]["z"] = json!(5);
            upd(m, doc)?;
            doc[k("a")]["z"] = json!(format!("6{}", tag));
            upd(m, doc)
        }
    }
}

fn info(i: usize) -> Option<Map<String, Value>> {
    match i {
        0 => None,
        1 => Some(Map::new()),
        _ => Some(orch::obj(json!({"a": {"b": [1, 2.5, "é\"\\"]}}))),
    }
}

#[derive(Clone, Debug)]
pub struct Scenario {
    init: usize,
    pre: Vec<usize>,
    edit: usize,
    info: usize,
}

impl Scenario {
    fn name(&self) -> String {
        let pre: String = self.pre.iter().map(|e| format!("+{}", EDITS[*e])).collect();
        format!("D{}{}.{}.i{}", self.init, pre, EDITS[self.edit], self.info)
    }
    fn to_json(&self) -> Value {
        json!({"init": self.init, "pre": self.pre, "edit": self.edit, "info": self.info})
    }
    fn from_json(v: &Value) -> Option<Scenario> {
        Some(Scenario {
            init: v["init"].as_u64()? as usize,
            pre: v["pre"].as_array()?.iter().map(|x| x.as_u64().map(|x| x as usize)).collect::<Option<Vec<usize>>>()?,
            edit: v["edit"].as_u64().filter(|e| (*e as usize) < EDITS.len())? as usize,
            info: v["info"].as_u64()? as usize,
        })
    }
}

#[derive(Clone, Debug)]
pub struct Plan {
    suffix: Option<String>,
    positions: BTreeSet<u64>,
}

impl Plan {
    fn name(&self) -> String {
        let p: Vec<String> = self.positions.iter().map(|n| n.to_string()).collect();
        format!("{}{}", self.suffix.as_ref().map(|s| s.trim_start_matches('.')).unwrap_or("w"), p.join("+"))
    }
}

/// initial commit + clean pre-edits; returns the replica with edit E staged, and the document submitted last
fn prepare(ad: &Dyn, sc: &Scenario) -> Result<(Melda, Value), String> {
    let m = orch::open(ad)?;
    let mut doc = init_doc(sc.init);
    orch::ge("update(initial)", || m.update(orch::obj(doc.clone())))?;
    match orch::ge("initial commit", || m.commit(None))? {
        Some(_) => {}
        None => return Err("initial commit returned Ok(None)".into()),
    }
    for (j, e) in sc.pre.iter().enumerate() {
        apply_edit(&m, &mut doc, *e, &format!("p{}", j))?;
        if orch::ge("pre-edit commit", || m.commit(None))?.is_none() {
            return Err("pre-edit commit returned Ok(None)".into());
        }
    }
    Ok((m, doc))
}

struct Reference {
    writes: Vec<String>,
    state: Value,
}

/// the same edits without any fault, on another adapter; also counts the writes of the last commit
fn uninterrupted(sc: &Scenario) -> Result<Reference, String> {
    let inner = orch::mem();
    let plan = Arc::new(Mutex::new(FaultPlan::default()));
    let ad = orch::dynof(FaultAdapter { inner: inner.clone(), plan: plan.clone() });
    let (m, mut doc) = prepare(&ad, sc)?;
    apply_edit(&m, &mut doc, sc.edit, "")?;
    plan.lock().unwrap().armed = true; // no positions: only counts
    match orch::ge("uninterrupted commit", || m.commit(info(sc.info)))? {
        Some(_) => {}
        None => return Err("uninterrupted commit returned Ok(None) (nothing staged)".into()),
    }
    let writes = plan.lock().unwrap().writes.clone();
    Ok(Reference { writes, state: orch::state(&m) })
}

fn run_plan(sc: &Scenario, pl: &Plan, reference: &Reference, out: &Out) {
    let stub = format!("fail-write:{}:{}", sc.name(), pl.name());
    let input = json!({"scenario": sc.to_json(), "suffix": pl.suffix, "positions": pl.positions.iter().collect::<Vec<&u64>>()});
    out.begin(&stub, input.clone());
    let fail = |what: &str, msg: &str| {
        let class = what.split('@').next().unwrap_or(what);
        out.fail(class, &format!("{}:{}", stub, what), input.clone(), msg);
    };
    let inner = orch::mem();
    let plan = Arc::new(Mutex::new(FaultPlan::default()));
    let ad = orch::dynof(FaultAdapter { inner: inner.clone(), plan: plan.clone() });
    let prepared = prepare(&ad, sc).and_then(|(m, mut doc)| {
        let prev = orch::open(&inner).map(|f| orch::state(&f))?;
        apply_edit(&m, &mut doc, sc.edit, "")?;
        Ok((m, prev))
    });
    let (m, prev) = match prepared {
        Ok(x) => x,
        Err(e) => {
            out.case(&format!("{}:setup", stub), false);
            fail("setup", &format!("fault-free preparation failed: {}", e));
            return;
        }
    };
    let before = json!({
        "staging": orch::res(orch::g(|| Ok::<bool, anyhow::Error>(m.has_staging()))),
        "stage": orch::res(orch::g(|| m.stage().map(|s| s.unwrap_or(Value::Null)))),
        "anchors": orch::state(&m)["anchors"].clone(),
        "read": orch::state(&m)["read"].clone(),
    });
    if before["staging"] != json!({"ok": true}) {
        out.case(&format!("{}:setup", stub), false);
        fail("setup", &format!("has_staging() is {} after staging the edit", before["staging"]));
        return;
    }
    {
        let mut p = plan.lock().unwrap();
        p.armed = true;
        p.suffix = pl.suffix.clone();
        p.positions = pl.positions.clone();
        p.counter = 0;
        p.fired = 0;
        p.writes.clear();
    }
    let mut committed = false;
    let mut any_fired = false;
    for attempt in 1..=(pl.positions.len() + 1) {
        let fired_before = plan.lock().unwrap().fired;
        let r = orch::g(|| m.commit(info(sc.info)));
        let fired = plan.lock().unwrap().fired > fired_before;
        any_fired |= fired;
        let what = format!("result@{}", attempt);
        out.case(&format!("{}:{}", stub, what), fired);
        match (&r, fired) {
            (Ok(Err(_)), true) => {}
            (Ok(Ok(Some(_))), false) => {
                committed = true;
                break;
            }
            (Ok(Ok(x)), true) => {
                fail(&what, &format!("commit returned Ok({:?}) although a write failed (writes of this run so far: {:?})", x, plan.lock().unwrap().writes));
                return;
            }
            (Ok(Ok(None)), false) => {
                fail(&what, "commit returned Ok(None) with staged changes and no failing write");
                return;
            }
            (Ok(Err(e)), false) => {
                fail(&what, &format!("commit is Err({}) although no write failed", e));
                return;
            }
            (Err(p), _) => {
                fail(&what, &format!("panic in commit: {}", p));
                return;
            }
        }
        // invariants after a failed attempt
        let st = orch::state(&m);
        let now = json!({
            "staging": orch::res(orch::g(|| Ok::<bool, anyhow::Error>(m.has_staging()))),
            "stage": orch::res(orch::g(|| m.stage().map(|s| s.unwrap_or(Value::Null)))),
            "anchors": st["anchors"].clone(),
            "read": st["read"].clone(),
        });
        let mut bad = false;
        for key in ["staging", "stage", "anchors", "read"] {
            let what = format!("{}@{}", key, attempt);
            out.case(&format!("{}:{}", stub, what), true);
            // `stage()` = {"c": change records, "o": staged object contents}.  When the PACK write succeeded and only the
            // block write failed, the object contents have durably moved into that pack (pack() cannot be undone on a
            // write-once store), so only the change records are required to be still staged.
            let differs = if key == "stage" { changes_only(&now[key]) != changes_only(&before[key]) } else { now[key] != before[key] };
            if differs {
                let failed_write = plan.lock().unwrap().writes.last().cloned().unwrap_or_default();
                fail(
                    &what,
                    &format!("after failed commit attempt {} (failing write: a {} item): {} is {} but was {} before the attempt", attempt, failed_write, key, clip(&now[key]), clip(&before[key])),
                );
                bad = true;
            }
        }
        let what = format!("reopen@{}", attempt);
        out.case(&format!("{}:{}", stub, what), true);
        let fresh = match orch::open(&inner) {
            Ok(f) => orch::state(&f),
            Err(e) => json!({ "open": e }),
        };
        if fresh != prev {
            let d = orch::first_difference(&fresh, &prev, &orch::STATE_KEYS).unwrap_or_else(|| fresh.to_string());
            fail(&what, &format!("after failed commit attempt {}: a fresh replica on the storage does not show the previous state; {}", attempt, d));
            bad = true;
        }
        let _ = bad; // later attempts and the retry are still checked: failures are capped per check kind
    }
    plan.lock().unwrap().armed = false;
    if !committed {
        let what = "retry";
        out.case(&format!("{}:{}", stub, what), any_fired);
        match orch::g(|| m.commit(info(sc.info))) {
            Ok(Ok(Some(_))) => {}
            Ok(Ok(None)) => {
                fail(what, "retry with the faults cleared returned Ok(None): the staged changes are gone");
                return;
            }
            Ok(Err(e)) => {
                fail(what, &format!("retry with the faults cleared is Err({})", e));
                return;
            }
            Err(p) => {
                fail(what, &format!("panic in the retry: {}", p));
                return;
            }
        }
    }
    let sm = orch::state(&m);
    let what = "retry-reopen";
    out.case(&format!("{}:{}", stub, what), any_fired);
    match orch::open(&inner) {
        Err(e) => fail(what, &format!("fresh replica on the storage after the successful commit: {}", e)),
        Ok(f) => {
            let sf = orch::state(&f);
            let count = |s: &Value| s["anchors"].as_array().map(|a| a.len());
            if let Some(d) = orch::first_difference(&sf, &sm, &["objects", "winners", "read"]) {
                fail(what, &format!("fresh replica vs committing replica after the successful commit; {}", d));
            } else if count(&sf) != count(&sm) {
                fail(what, &format!("fresh replica has anchors {} but the committing replica {}", sf["anchors"], sm["anchors"]));
            }
        }
    }
    let what = "retry-vs-uninterrupted";
    out.case(&format!("{}:{}", stub, what), any_fired);
    if let Some(d) = orch::first_difference(&sm, &reference.state, &["objects", "winners", "read"]) {
        fail(what, &format!("committing replica after faults+retry vs uninterrupted run; {}", d));
    }
}

fn clip(v: &Value) -> String {
    let s = v.to_string();
    if s.chars().count() > 300 {
        format!("{}…", s.chars().take(300).collect::<String>())
    } else {
        s
    }
}

fn plans(w: u64, thorough: bool) -> Vec<Plan> {
    let mut out = vec![];
    let set = |v: &[u64]| v.iter().cloned().collect::<BTreeSet<u64>>();
    for n in 1..=w {
        out.push(Plan { suffix: None, positions: set(&[n]) });
    }
    for n in 1..=w {
        out.push(Plan { suffix: None, positions: set(&[n, n + 1]) });
    }
    if thorough {
        for n in 1..=w {
            out.push(Plan { suffix: None, positions: set(&[n, n + 1, n + 2]) });
        }
        for sfx in [".pack", ".delta"] {
            for p in [vec![1], vec![1, 2], vec![2], vec![1, 2, 3]] {
                out.push(Plan { suffix: Some(sfx.to_string()), positions: set(&p) });
            }
        }
    }
    out
}

fn scenarios(thorough: bool) -> Vec<Scenario> {
    let mut out = vec![];
    if !thorough {
        for init in 0..3 {
            for e in 0..EDITS.len() {
                out.push(Scenario { init, pre: vec![], edit: e, info: (init + e) % 3 });
            }
        }
        out.push(Scenario { init: 0, pre: vec![1], edit: 0, info: 0 });
        out.push(Scenario { init: 0, pre: vec![3, 0], edit: 3, info: 2 });
        return out;
    }
    for init in 0..3 {
        for pre in [vec![], vec![1usize], vec![3usize, 0usize]] {
            for e in 0..EDITS.len() {
                if pre.contains(&1) && EDITS[e] == "delete" {
                    continue; // o2 is already gone after the pre-edit "mix"
                }
                for i in 0..3 {
                    out.push(Scenario { init, pre: pre.clone(), edit: e, info: i });
                }
            }
        }
    }
    out
}

fn work(thorough: bool, out: &Out) {
    for sc in scenarios(thorough) {
        out.begin(&format!("fail-write:{}:reference", sc.name()), json!({"scenario": sc.to_json()}));
        let reference = match uninterrupted(&sc) {
            Ok(r) => r,
            Err(e) => {
                out.case(&format!("fail-write:{}:reference:setup", sc.name()), false);
                out.fail("setup", &format!("fail-write:{}:reference:setup", sc.name()), json!({"scenario": sc.to_json()}), &format!("uninterrupted run failed: {}", e));
                continue;
            }
        };
        for pl in plans(reference.writes.len() as u64, thorough) {
            run_plan(&sc, &pl, &reference, out);
        }
    }
}

pub fn run(thorough: bool, _seed: u64) -> Report {
    let mut rep = Report::new(
        "commit_faults",
        &(if thorough {
            "single replica; scenarios = 3 initial documents (plain; strings with braces/quotes/backslash and numbers; nested flattened objects) x clean pre-edits {none, mix, array+update} x staged edit {update one object, mix of update/create/delete, delete_object only, single-writer array edit, create_object, two staged revisions of one object} x commit metadata {None, {}, nested}; per scenario with W = number of writes of the uninterrupted commit (1 or 2): every single failing write position 1..W, every pair {n,n+1}, every triple {n,n+1,n+2} (later positions hit the retries), and for the .pack and the .delta writes separately the position sets {1},{2},{1,2},{1,2,3}"
        } else {
            "single replica; 20 scenarios: 3 initial documents (plain with a single-writer array; strings with braces/quotes/backslash and numbers; nested flattened objects) x staged edit {update one object, mix of update/create/delete, delete_object only, single-writer array edit, create_object, two staged revisions of one object} with commit metadata cycling over {None, {}, nested}, plus 2 scenarios with cleanly committed pre-edits; per scenario with W = number of writes of the uninterrupted commit (1 or 2): every single failing write position 1..W and every pair {n,n+1} (the second position hits the first retry)"
        })
        .to_string(),
        "exhaustive over scenarios x fault plans; one case per scenario, plan and check (result@k, staging@k, stage@k, anchors@k, read@k, reopen@k per failed attempt k; retry, retry-reopen, retry-vs-uninterrupted); non-trivial = a fault fired; 10 s watchdog",
    );
    if std::env::var_os("RAYON_NUM_THREADS").is_none() {
        std::env::set_var("RAYON_NUM_THREADS", "2");
    }
    let mut classes = FailureClasses::new(1);
    orch::supervise(&mut rep, &mut classes, move |out| work(thorough, out));
    classes.summary("commit_faults");
    rep
}

pub fn replay(case: &Value) -> Value {
    let inp = case["input"].clone();
    let sc = match Scenario::from_json(&inp["scenario"]) {
        Some(s) => s,
        None => return json!({"reproduced": false, "error": "bad input"}),
    };
    let pl = Plan {
        suffix: inp["suffix"].as_str().map(|s| s.to_string()),
        positions: inp["positions"].as_array().map(|a| a.iter().filter_map(|x| x.as_u64()).collect()).unwrap_or_default(),
    };
    let fails = orch::replay_collect(move |out| match uninterrupted(&sc) {
        Ok(reference) => run_plan(&sc, &pl, &reference, out),
        Err(e) => out.fail("setup", &format!("fail-write:{}:reference:setup", sc.name()), json!({}), &e),
    });
    // the kind prefix is the same for every case of this oracle: insist on the same check name
    let want = case["case_id"].as_str().unwrap_or("");
    let check = |id: &str| id.rsplit(':').next().unwrap_or("").split('@').next().unwrap_or("").to_string();
    if let Some((id, what)) = fails.iter().find(|(id, _)| id == want) {
        return json!({"reproduced": true, "case_id": id, "what": what});
    }
    if let Some((id, what)) = fails.iter().find(|(id, _)| want.is_empty() || check(id) == check(want) || id.starts_with("hang:") && want.starts_with("hang:")) {
        return json!({"reproduced": true, "case_id": id, "what": what, "note": "same check, other case id"});
    }
    json!({"reproduced": false, "other_failures": fails.len()})
}
