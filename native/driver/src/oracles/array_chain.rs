//! C16 (API level): flattened arrays are stored as edit scripts against the previous version and every stored
//! version must reconstruct exactly — for CHAINS of versions, through update() / read(), commit and reopen.
//! Stand-in for the parts of C16 that are not under contract: create_delta_array_descriptor (diff against the
//! winner), update_object's change detection for array descriptors, rebuild_array_order (chain walk + LRU).
//! Domain: all chains v1..vk of duplicate-free arrays over N ids (each id an object {"_id": id, "v": id}),
//! k <= K; after every update() the document read back must equal the submitted one; after a final commit a
//! replica reopened on the same storage must read the same document (with a cold cache).
use crate::Report;
use melda::adapter::Adapter;
use melda::melda::Melda;
use melda::memoryadapter::MemoryAdapter;
use serde_json::{json, Map, Value};
use std::sync::{Arc, RwLock};

const KEY: &str = "items\u{266D}";

fn arrays(n: usize, maxlen: usize) -> Vec<Vec<u8>> {
    let mut out: Vec<Vec<u8>> = vec![vec![]];
    let mut frontier: Vec<Vec<u8>> = vec![vec![]];
    for _ in 0..maxlen {
        let mut next = vec![];
        for s in &frontier {
            for c in 0..n as u8 {
                if !s.contains(&c) {
                    let mut t = s.clone();
                    t.push(c);
                    next.push(t);
                }
            }
        }
        out.extend(next.iter().cloned());
        frontier = next;
    }
    out
}

const REST: &str = "zrest\u{266D}";
thread_local! { static NIDS: std::cell::Cell<u8> = std::cell::Cell::new(3); }

/// the array under test plus a second flattened array holding every other id, so that no object is ever deleted
/// (read() drops entries of deleted objects, which would mask a stale order)
/// the version "the array is not part of the document" (its descriptor object gets deleted)
const ABSENT: u8 = 255;
fn is_absent(a: &[u8]) -> bool {
    a.len() == 1 && a[0] == ABSENT
}
fn doc(a: &[u8]) -> Map<String, Value> {
    let obj = |c: &u8| {
        let id = ((b'a' + c) as char).to_string();
        json!({"_id": id, "v": id})
    };
    let n = NIDS.with(|x| x.get());
    let rest: Vec<Value> = (0..n).filter(|c| !a.contains(c)).map(|c| obj(&c)).collect();
    let mut m = Map::new();
    if is_absent(a) {
        m.insert(REST.to_string(), Value::from(rest));
        return m;
    }
    let items: Vec<Value> = a.iter().map(obj).collect();
    m.insert(KEY.to_string(), Value::from(items));
    m.insert(REST.to_string(), Value::from(rest));
    m
}

fn ids_of(m: &Map<String, Value>) -> Option<Vec<String>> {
    let arr = m.get(KEY)?.as_array()?;
    let mut out = vec![];
    for it in arr {
        out.push(it.get("_id")?.as_str()?.to_string());
    }
    Some(out)
}

fn expect_ids(a: &[u8]) -> Vec<String> {
    a.iter().map(|c| ((b'a' + c) as char).to_string()).collect()
}

pub fn check(chain: &[Vec<u8>]) -> Result<(), String> {
    let ch: Vec<Vec<u8>> = chain.to_vec();
    let r = super::guarded(move || -> Result<(), String> {
        let adapter: Box<dyn Adapter> = Box::new(MemoryAdapter::new());
        let adapter = Arc::new(RwLock::new(adapter));
        let replica = Melda::new(adapter.clone()).map_err(|e| format!("new: {}", e))?;
        for (step, a) in ch.iter().enumerate() {
            replica.update(doc(a)).map_err(|e| format!("update #{}: {}", step + 1, e))?;
            let back = replica.read(None).map_err(|e| format!("read after update #{}: {}", step + 1, e))?;
            if is_absent(a) {
                if back.contains_key(KEY) {
                    return Err(format!("after update #{} submitted a document without the array, read back {}", step + 1, Value::from(back)));
                }
                if step % 2 == 1 {
                    replica.commit(None).map_err(|e| format!("commit: {}", e))?;
                }
                continue;
            }
            let got = ids_of(&back).ok_or_else(|| format!("read after update #{}: array field missing: {}", step + 1, Value::from(back.clone())))?;
            if got != expect_ids(a) {
                return Err(format!("after update #{} submitted {:?}, read back {:?}", step + 1, expect_ids(a), got));
            }
            // commit after every second version so that chains span committed and staged versions
            if step % 2 == 1 {
                replica.commit(None).map_err(|e| format!("commit: {}", e))?;
            }
        }
        replica.commit(None).map_err(|e| format!("final commit: {}", e))?;
        let reopened = Melda::new(adapter.clone()).map_err(|e| format!("reopen: {}", e))?;
        let last = ch.last().unwrap();
        let back = reopened.read(None).map_err(|e| format!("read after reopen: {}", e))?;
        if is_absent(last) {
            return if back.contains_key(KEY) { Err(format!("after reopen expected a document without the array, read back {}", Value::from(back))) } else { Ok(()) };
        }
        let got = ids_of(&back).ok_or_else(|| "read after reopen: array field missing".to_string())?;
        if got != expect_ids(last) {
            return Err(format!("after reopen expected {:?}, read back {:?}", expect_ids(last), got));
        }
        Ok(())
    });
    match r {
        Ok(x) => x,
        Err(p) => Err(format!("panic: {}", p)),
    }
}

pub fn run(thorough: bool, _seed: u64) -> Report {
    let (n, maxlen, k) = if thorough { (4, 4, 3) } else { (3, 3, 3) };
    let mut rep = Report::new(
        "array_chain",
        &format!("all chains of {} successive versions of a flattened array, each version a duplicate-free sequence over {} ids of length <= {}; plus all chains of 4 versions over {{absent (array removed from the document)}} + sequences of length <= 2 over {} ids that contain a removal", k, n, maxlen, if thorough { 3 } else { 2 }),
        "exhaustive enumeration of chains; after every update() the read-back array must equal the submitted one, and again after commit + reopen; non-trivial = all consecutive versions differ",
    );
    // family 2: chains in which the array is also REMOVED from the document and added again (possibly empty)
    {
        let (n2, k2) = if thorough { (3usize, 4usize) } else { (2usize, 4usize) };
        NIDS.with(|x| x.set(n2 as u8));
        let mut vs = arrays(n2, 2);
        vs.push(vec![ABSENT]);
        let mut idx = vec![0usize; k2];
        'outer: loop {
            let chain: Vec<Vec<u8>> = idx.iter().map(|i| vs[*i].clone()).collect();
            if chain.iter().any(|a| is_absent(a)) && !is_absent(&chain[0]) {
                let key = format!("{:?}", chain).replace("[255]", "absent");
                rep.case(&key, chain.windows(2).all(|w| w[0] != w[1]));
                if let Err(w) = check(&chain) {
                    rep.fail(&format!("removed:{}", key), json!({"chain": chain, "n": n2}), &w);
                }
            }
            let mut p = k2;
            loop {
                if p == 0 {
                    break 'outer;
                }
                p -= 1;
                idx[p] += 1;
                if idx[p] < vs.len() {
                    break;
                }
                idx[p] = 0;
            }
        }
    }
    NIDS.with(|x| x.set(n as u8));
    let all = arrays(n, maxlen);
    let mut idx = vec![0usize; k];
    loop {
        let chain: Vec<Vec<u8>> = idx.iter().map(|i| all[*i].clone()).collect();
        let key = format!("{:?}", chain);
        let nontrivial = chain.windows(2).all(|w| w[0] != w[1]) && !chain[0].is_empty();
        rep.case(&key, nontrivial);
        if let Err(w) = check(&chain) {
            let same_patch = w.starts_with("after update");
            let cid = format!("{}{}", if same_patch { "chain:" } else { "other:" }, key);
            rep.fail(&cid, json!({"chain": chain, "n": n}), &w);
        }
        // next
        let mut p = k;
        loop {
            if p == 0 {
                return rep;
            }
            p -= 1;
            idx[p] += 1;
            if idx[p] < all.len() {
                break;
            }
            idx[p] = 0;
        }
    }
}

pub fn replay(case: &Value) -> Value {
    NIDS.with(|x| x.set(case["input"]["n"].as_u64().unwrap_or(3) as u8));
    let chain: Vec<Vec<u8>> = case["input"]["chain"]
        .as_array()
        .map(|a| a.iter().map(|v| v.as_array().map(|x| x.iter().map(|y| y.as_u64().unwrap_or(0) as u8).collect()).unwrap_or_default()).collect())
        .unwrap_or_default();
    match check(&chain) {
        Ok(()) => json!({"reproduced": false}),
        Err(w) => json!({"reproduced": true, "what": w}),
    }
}
