//! C17: write-once key/value contract of the storage adapters, model-based.
//! Back ends: MemoryAdapter, FilesystemAdapter, SqliteAdapter (in memory / file), each bare and wrapped
//! in Flate2Adapter and BrotliAdapter.  Model: BTreeMap<key, bytes>.
//!   write(k,p)      : Ok; stores p only if k is absent (first write wins)
//!   read(k,0,0)     : present -> Ok(first written bytes); absent -> Err
//!   read(k,off,len) : present, non-empty in-range slice -> Ok(slice); absent -> Err
//!   list(ext)       : Ok; as a multiset == { k with suffix ext, suffix stripped }
//!   persistent back ends: a fresh adapter on the same location shows the same content
//! Sequences whose ranged reads would be out of range for a PRESENT key are outside the domain.
use super::FailureClasses;
use crate::Report;
use melda::adapter::Adapter;
use melda::brotliadapter::BrotliAdapter;
use melda::filesystemadapter::FilesystemAdapter;
use melda::flate2adapter::Flate2Adapter;
use melda::memoryadapter::MemoryAdapter;
use melda::sqliteadapter::SqliteAdapter;
use serde_json::{json, Value};
use std::collections::BTreeMap;
use std::panic::AssertUnwindSafe;
use std::sync::{Arc, RwLock};

type Dyn = Arc<RwLock<Box<dyn Adapter>>>;

const KEYS: [&str; 3] = ["aa.pack", "ab.pack", "aa.delta"];
const EXTS: [&str; 3] = [".pack", ".delta", ""];
const RANGES: [(usize, usize); 3] = [(0, 1), (3, 5), (255, 45)];

fn payload(i: usize) -> Vec<u8> {
    match i {
        0 => vec![],
        1 => b"x".to_vec(),
        2 => b"hello world".to_vec(),
        _ => (0..300u32).map(|x| (x % 256) as u8).collect(),
    }
}

#[derive(Clone, Debug, PartialEq)]
pub enum Op {
    W(usize, usize),         // key index, payload index
    R(usize),                // full read
    RR(usize, usize, usize), // key index, offset, length
    L(usize),                // extension index
}

impl Op {
    fn to_json(&self) -> Value {
        match self {
            Op::W(k, p) => json!(["write", KEYS[*k], p]),
            Op::R(k) => json!(["read", KEYS[*k], 0, 0]),
            Op::RR(k, o, l) => json!(["read", KEYS[*k], o, l]),
            Op::L(e) => json!(["list", EXTS[*e]]),
        }
    }
    fn from_json(v: &Value) -> Option<Op> {
        let key = |x: &Value| KEYS.iter().position(|k| Some(*k) == x.as_str());
        match v[0].as_str()? {
            "write" => Some(Op::W(key(&v[1])?, v[2].as_u64()? as usize)),
            "read" => {
                let (o, l) = (v[2].as_u64()? as usize, v[3].as_u64()? as usize);
                if o == 0 && l == 0 { Some(Op::R(key(&v[1])?)) } else { Some(Op::RR(key(&v[1])?, o, l)) }
            }
            "list" => Some(Op::L(EXTS.iter().position(|e| Some(*e) == v[1].as_str())?)),
            _ => None,
        }
    }
}

fn full_alphabet() -> Vec<Op> {
    let mut v = vec![];
    for k in 0..3 {
        for p in 0..4 {
            v.push(Op::W(k, p));
        }
    }
    for k in 0..3 {
        v.push(Op::R(k));
        for (o, l) in RANGES {
            v.push(Op::RR(k, o, l));
        }
    }
    for e in 0..3 {
        v.push(Op::L(e));
    }
    v
}

/// 2 keys x {empty, "hello world"}, full reads, one ranged read, all lists
fn reduced_alphabet() -> Vec<Op> {
    let mut v = vec![];
    for k in [0, 2] {
        for p in [0, 2] {
            v.push(Op::W(k, p));
        }
    }
    for k in [0, 2] {
        v.push(Op::R(k));
        v.push(Op::RR(k, 3, 5));
    }
    for e in 0..3 {
        v.push(Op::L(e));
    }
    v
}

/// in the domain iff every ranged read of a PRESENT key is a non-empty in-range slice
fn in_domain(ops: &[Op]) -> bool {
    let mut model: BTreeMap<usize, usize> = BTreeMap::new();
    for op in ops {
        match op {
            Op::W(k, p) => {
                model.entry(*k).or_insert(payload(*p).len());
            }
            Op::RR(k, o, l) => {
                if let Some(n) = model.get(k) {
                    if *l == 0 || o + l > *n {
                        return false;
                    }
                }
            }
            _ => {}
        }
    }
    true
}

#[derive(Clone, Copy, Debug, PartialEq)]
pub enum Base {
    Memory,
    Filesystem,
    SqliteMem,
    SqliteFile,
}
#[derive(Clone, Copy, Debug, PartialEq)]
pub enum Wrap {
    Bare,
    Flate,
    Brotli,
}

fn backend_name(b: Base, w: Wrap) -> String {
    let bn = match b {
        Base::Memory => "memory",
        Base::Filesystem => "filesystem",
        Base::SqliteMem => "sqlite-mem",
        Base::SqliteFile => "sqlite-file",
    };
    match w {
        Wrap::Bare => bn.to_string(),
        Wrap::Flate => format!("{}+flate", bn),
        Wrap::Brotli => format!("{}+brotli", bn),
    }
}

fn parse_backend(s: &str) -> Option<(Base, Wrap)> {
    for b in [Base::Memory, Base::Filesystem, Base::SqliteMem, Base::SqliteFile] {
        for w in [Wrap::Bare, Wrap::Flate, Wrap::Brotli] {
            if backend_name(b, w) == s {
                return Some((b, w));
            }
        }
    }
    None
}

fn open(b: Base, w: Wrap, loc: &str) -> Result<Box<dyn Adapter>, String> {
    let base: Box<dyn Adapter> = match b {
        Base::Memory => Box::new(MemoryAdapter::new()),
        Base::Filesystem => Box::new(FilesystemAdapter::new(loc).map_err(|e| e.to_string())?),
        Base::SqliteMem => Box::new(SqliteAdapter::new_in_memory()),
        Base::SqliteFile => Box::new(SqliteAdapter::new(loc)),
    };
    let d: Dyn = Arc::new(RwLock::new(base));
    Ok(match w {
        Wrap::Bare => Box::new(d),
        Wrap::Flate => Box::new(Flate2Adapter::new(d)),
        Wrap::Brotli => Box::new(BrotliAdapter::new(d)),
    })
}

fn scratch_root() -> String {
    format!("/var/tmp/melda-verif/scratch-{}-adapters", std::process::id())
}

fn cleanup(loc: &str) {
    let _ = std::fs::remove_dir_all(loc);
    let _ = std::fs::remove_file(loc);
    let _ = std::fs::remove_file(format!("{}-journal", loc));
}

fn g<T>(f: impl FnOnce() -> T) -> Result<T, String> {
    super::guarded(AssertUnwindSafe(f))
}

fn sorted(mut v: Vec<String>) -> Vec<String> {
    v.sort();
    v
}

/// Err((class, what)); class is the case-id prefix
pub fn run_seq(b: Base, w: Wrap, ops: &[Op], loc: &str) -> Result<(), (String, String)> {
    cleanup(loc);
    let r = run_seq_inner(b, w, ops, loc);
    cleanup(loc);
    r
}

fn run_seq_inner(b: Base, w: Wrap, ops: &[Op], loc: &str) -> Result<(), (String, String)> {
    let other = |s: String| ("other".to_string(), s);
    let sqlite = b == Base::SqliteMem || b == Base::SqliteFile;
    let ad = match g(|| open(b, w, loc)) {
        Ok(Ok(a)) => a,
        Ok(Err(e)) => return Err(other(format!("cannot open back end: {}", e))),
        Err(p) => return Err(other(format!("panic while opening a new back end: {}", p))),
    };
    let mut model: BTreeMap<String, Vec<u8>> = BTreeMap::new();
    for (i, op) in ops.iter().enumerate() {
        let ctx = format!("op {} {}", i, op.to_json());
        match op {
            Op::W(k, p) => {
                let data = payload(*p);
                match g(|| ad.write_object(KEYS[*k], &data).map_err(|e| e.to_string())) {
                    Err(p) => return Err(other(format!("panic: {}: {}", ctx, p))),
                    Ok(Err(e)) => return Err(other(format!("{}: write is Err({})", ctx, e))),
                    Ok(Ok(())) => {}
                }
                model.entry(KEYS[*k].to_string()).or_insert(data);
            }
            Op::R(k) | Op::RR(k, _, _) => {
                let (o, l) = if let Op::RR(_, o, l) = op { (*o, *l) } else { (0, 0) };
                let got = match g(|| ad.read_object(KEYS[*k], o, l).map_err(|e| e.to_string())) {
                    Err(p) => return Err(other(format!("panic: {}: {}", ctx, p))),
                    Ok(x) => x,
                };
                match (model.get(KEYS[*k]), got) {
                    (None, Err(_)) => {}
                    (None, Ok(d)) => return Err(other(format!("{}: read of an absent key is Ok({} bytes)", ctx, d.len()))),
                    (Some(_), Err(e)) => return Err(other(format!("{}: read of a present key is Err({})", ctx, e))),
                    (Some(m), Ok(d)) => {
                        let want = if o == 0 && l == 0 { m.clone() } else { m[o..o + l].to_vec() };
                        if d != want {
                            return Err(other(format!("{}: read returned {} bytes {:?}..., model has {} bytes {:?}...", ctx, d.len(), &d[..d.len().min(8)], want.len(), &want[..want.len().min(8)])));
                        }
                    }
                }
            }
            Op::L(e) => {
                let ext = EXTS[*e];
                let got = match g(|| ad.list_objects(ext).map_err(|e| e.to_string())) {
                    Err(p) => return Err(other(format!("panic: {}: {}", ctx, p))),
                    Ok(Err(e)) => return Err(other(format!("{}: list is Err({})", ctx, e))),
                    Ok(Ok(v)) => sorted(v),
                };
                let want = sorted(model.keys().filter(|k| k.ends_with(ext)).map(|k| k[..k.len() - ext.len()].to_string()).collect());
                if got != want {
                    let unstripped = sorted(model.keys().filter(|k| k.ends_with(ext)).cloned().collect());
                    let class = if sqlite && !ext.is_empty() && got == unstripped { "sqlite-list-suffix" } else { "other" };
                    return Err((class.to_string(), format!("{}: list returned {:?}, model gives {:?}", ctx, got, want)));
                }
            }
        }
    }
    // persistence: a fresh adapter on the same location
    if b == Base::Filesystem || b == Base::SqliteFile {
        drop(ad);
        let class = if b == Base::SqliteFile { "sqlite-reopen" } else { "other" };
        let fresh = match g(|| open(b, w, loc)) {
            Ok(Ok(a)) => a,
            Ok(Err(e)) => return Err((class.to_string(), format!("reopening the location failed: {}", e))),
            Err(p) => return Err((class.to_string(), format!("panic while reopening the location: {}", p))),
        };
        for (k, m) in &model {
            match g(|| fresh.read_object(k, 0, 0).map_err(|e| e.to_string())) {
                Ok(Ok(d)) if &d == m => {}
                x => return Err(other(format!("after reopen: read({}) = {:?}, expected the {} bytes written", k, x.map(|r| r.map(|d| d.len())), m.len()))),
            }
        }
        match g(|| fresh.list_objects("").map_err(|e| e.to_string())) {
            Ok(Ok(v)) if sorted(v.clone()) == sorted(model.keys().cloned().collect()) => {}
            x => return Err(other(format!("after reopen: list(\"\") = {:?}, expected {:?}", x, model.keys().collect::<Vec<_>>()))),
        }
    }
    Ok(())
}


// ---------------------------------------------------------------------------------------------------------------
// two fixed families outside the op alphabet: (1) listing with key / suffix texts that a pattern language (SQL LIKE, glob,
// case folding) would treat specially, (2) large, poorly compressible objects read by slices (codec wrappers must serve
// any in-range slice of an object whose compressed form spans many codec buffers)
const TRICKY_KEYS: [&str; 9] = ["aa.pack", "b2.PACK", "g8.v1", "h8_v1", "x%y", "q.pack.delta", "r.packx", "Zz.Pack", "k_pack"];
const TRICKY_EXTS: [&str; 11] = [".pack", ".PACK", "_v1", ".v1", "%", "%y", "", ".delta", "k", "_pack", "ack"];

fn big_payload() -> Vec<u8> {
    // 96 KiB from a 64-bit LCG: practically incompressible, so the compressed form spans many codec buffers
    let mut x: u64 = 0x9E3779B97F4A7C15;
    (0..96 * 1024).map(|_| { x = x.wrapping_mul(6364136223846793005).wrapping_add(1442695040888963407); (x >> 33) as u8 }).collect()
}
fn codec_shaped_payloads() -> Vec<(&'static str, Vec<u8>)> {
    // a raw DEFLATE stream consisting of one final STORED block (01 LEN NLEN data) around 40 pseudo-random bytes
    let inner: Vec<u8> = big_payload()[..40].to_vec();
    let mut stored = vec![0x01u8, 40, 0, !40u8, 0xFF];
    stored.extend_from_slice(&inner);
    vec![
        ("the empty DEFLATE stream 03 00", vec![0x03, 0x00]),
        ("a DEFLATE stored block around 40 random bytes", stored),
        ("the empty Brotli stream 06", vec![0x06]),
        ("the empty Brotli stream 3b", vec![0x3b]),
    ]
}
const BIG_RANGES: [(usize, usize); 8] = [(0, 1), (1, 4095), (4096, 1), (5000, 100), (40000, 2000), (65536, 4096), (98303, 1), (0, 98304)];

pub fn run_special(b: Base, w: Wrap, family: &str, loc: &str) -> Result<(), (String, String)> {
    cleanup(loc);
    let r = run_special_inner(b, w, family, loc);
    cleanup(loc);
    r
}

fn run_special_inner(b: Base, w: Wrap, family: &str, loc: &str) -> Result<(), (String, String)> {
    let err = |s: String| (family.to_string(), s);
    let ad = match g(|| open(b, w, loc)) {
        Ok(Ok(a)) => a,
        Ok(Err(e)) => return Err(err(format!("cannot open back end: {}", e))),
        Err(p) => return Err(err(format!("panic while opening a new back end: {}", p))),
    };
    if family == "tricky-listing" {
        for (i, k) in TRICKY_KEYS.iter().enumerate() {
            match g(|| ad.write_object(k, format!("v{}", i).as_bytes()).map_err(|e| e.to_string())) {
                Ok(Ok(())) => {}
                x => return Err(err(format!("write({}) = {:?}", k, x))),
            }
        }
        for ext in TRICKY_EXTS {
            let got = match g(|| ad.list_objects(ext).map_err(|e| e.to_string())) {
                Ok(Ok(v)) => sorted(v),
                x => return Err(err(format!("list({:?}) = {:?}", ext, x))),
            };
            let want = sorted(TRICKY_KEYS.iter().filter(|k| k.ends_with(ext)).map(|k| k[..k.len() - ext.len()].to_string()).collect());
            if got != want {
                return Err(err(format!("list({:?}) returned {:?}; the keys ending byte-for-byte in that suffix, suffix removed, are {:?}", ext, got, want)));
            }
        }
        for (i, k) in TRICKY_KEYS.iter().enumerate() {
            match g(|| ad.read_object(k, 0, 0).map_err(|e| e.to_string())) {
                Ok(Ok(d)) if d == format!("v{}", i).as_bytes() => {}
                x => return Err(err(format!("read({}) = {:?}", k, x))),
            }
        }
    } else if family == "codec-shaped" {
        // payloads that are THEMSELVES well-formed codec streams and do not shrink when compressed (seed C17-m10: a wrapper that stores
        // incompressible content as-is and falls back to the raw bytes when decoding fails hands back the decoded INNER message)
        let shaped = codec_shaped_payloads();
        for (i, (_, data)) in shaped.iter().enumerate() {
            match g(|| ad.write_object(&format!("c{}.pack", i), data).map_err(|e| e.to_string())) {
                Ok(Ok(())) => {}
                x => return Err(err(format!("write(c{}.pack) = {:?}", i, x))),
            }
        }
        let check = |ad: &Box<dyn Adapter>, when: &str| -> Result<(), (String, String)> {
            for (i, (what, data)) in shaped.iter().enumerate() {
                match g(|| ad.read_object(&format!("c{}.pack", i), 0, 0).map_err(|e| e.to_string())) {
                    Ok(Ok(d)) if &d == data => {}
                    x => return Err(err(format!("{}read of {} ({} bytes written) = {:?}", when, what, data.len(), x.map(|r| r.map(|d| d.len()))))),
                }
                if data.len() >= 2 {
                    match g(|| ad.read_object(&format!("c{}.pack", i), 1, data.len() - 1).map_err(|e| e.to_string())) {
                        Ok(Ok(d)) if d == data[1..] => {}
                        x => return Err(err(format!("{}read({}, 1, {}) = {:?}", when, what, data.len() - 1, x.map(|r| r.map(|d| d.len()))))),
                    }
                }
            }
            Ok(())
        };
        check(&ad, "")?;
        if b == Base::Filesystem || b == Base::SqliteFile {
            drop(ad);
            let fresh = match g(|| open(b, w, loc)) {
                Ok(Ok(a)) => a,
                x => return Err(err(format!("reopening the location failed: {:?}", x.map(|r| r.map(|_| ())))))
            };
            check(&fresh, "after reopen: ")?;
        }
    } else {
        let data = big_payload();
        match g(|| ad.write_object("big.pack", &data).map_err(|e| e.to_string())) {
            Ok(Ok(())) => {}
            x => return Err(err(format!("write(big.pack, 96 KiB) = {:?}", x))),
        }
        let check = |ad: &Box<dyn Adapter>, when: &str| -> Result<(), (String, String)> {
            match g(|| ad.read_object("big.pack", 0, 0).map_err(|e| e.to_string())) {
                Ok(Ok(d)) if d == data => {}
                x => return Err(err(format!("{}full read of the 96 KiB object = {:?}", when, x.map(|r| r.map(|d| d.len()))))),
            }
            for (o, l) in BIG_RANGES {
                match g(|| ad.read_object("big.pack", o, l).map_err(|e| e.to_string())) {
                    Ok(Ok(d)) if d == data[o..o + l] => {}
                    Ok(Ok(d)) => {
                        let first_bad = d.iter().zip(data[o..o + l].iter()).position(|(a, b)| a != b);
                        return Err(err(format!("{}read(big.pack, {}, {}) returned {} bytes that differ from the written slice (first difference at slice index {:?})", when, o, l, d.len(), first_bad)));
                    }
                    x => return Err(err(format!("{}read(big.pack, {}, {}) = {:?}", when, o, l, x.map(|r| r.map(|d| d.len()))))),
                }
            }
            Ok(())
        };
        check(&ad, "")?;
        if b == Base::Filesystem || b == Base::SqliteFile {
            drop(ad);
            let fresh = match g(|| open(b, w, loc)) {
                Ok(Ok(a)) => a,
                x => return Err(err(format!("reopening the location failed: {:?}", x.map(|r| r.map(|_| ())))))
            };
            check(&fresh, "after reopen: ")?;
        }
    }
    Ok(())
}

fn sequences(alpha: &[Op], maxlen: usize) -> Vec<Vec<Op>> {
    let mut out: Vec<Vec<Op>> = vec![];
    let mut frontier: Vec<Vec<Op>> = vec![vec![]];
    for _ in 0..maxlen {
        let mut next = vec![];
        for s in &frontier {
            for op in alpha {
                let mut t = s.clone();
                t.push(op.clone());
                if in_domain(&t) {
                    next.push(t);
                }
            }
        }
        out.extend(next.iter().cloned());
        frontier = next;
    }
    out
}

/// (full-alphabet length, reduced-alphabet length) per back end; set from measured cost
fn bounds(b: Base, w: Wrap, thorough: bool) -> (usize, usize) {
    match (b, w, thorough) {
        (Base::Memory, Wrap::Bare, true) => (4, 0),
        (Base::Memory, Wrap::Bare, false) => (3, 0),
        (Base::SqliteFile, _, true) => (2, 3),
        (Base::SqliteFile, _, false) => (1, 2),
        (Base::Filesystem, Wrap::Brotli, true) | (Base::SqliteMem, Wrap::Brotli, true) => (3, 3),
        (_, _, true) => (3, 4),
        (Base::Memory, Wrap::Flate, false) | (Base::SqliteMem, Wrap::Bare, false) => (2, 3),
        (_, _, false) => (2, 2),
    }
}

pub fn run(thorough: bool, _seed: u64) -> Report {
    let mut bound = String::from(
        "op sequences over keys {aa.pack, ab.pack, aa.delta}, payloads {empty, \"x\", \"hello world\", 300 binary bytes}, ops {write(k,p), read(k,0,0), read(k,off,len) for (0,1),(3,5),(255,45), list(.pack|.delta|\"\")} = 27 ops (full alphabet F) and an 11-op sub-alphabet R (2 keys x {empty, \"hello world\"}, reads, read(k,3,5), lists); plus per back end two fixed families: tricky-listing (9 keys / 11 suffixes with upper case, `_`, `%`, nested suffixes) big-slices (one 96 KiB incompressible object, full read + 8 slices, reopen) and codec-shaped (4 small payloads that are themselves well-formed DEFLATE / Brotli streams, full read + one slice, reopen); per back end (len F, len R): ",
    );
    let mut rep_cases: Vec<(Base, Wrap, Vec<Vec<Op>>)> = vec![];
    let full = full_alphabet();
    let red = reduced_alphabet();
    for b in [Base::Memory, Base::SqliteMem, Base::Filesystem, Base::SqliteFile] {
        for w in [Wrap::Bare, Wrap::Flate, Wrap::Brotli] {
            let (lf, lr) = bounds(b, w, thorough);
            bound.push_str(&format!("{}=({},{}) ", backend_name(b, w), lf, lr));
            let mut seqs = sequences(&full, lf);
            for s in sequences(&red, lr) {
                if s.len() > lf {
                    seqs.push(s); // shorter ones are already part of the full-alphabet family
                }
            }
            rep_cases.push((b, w, seqs));
        }
    }
    let mut rep = Report::new(
        "adapters",
        &bound,
        "exhaustive enumeration of all in-domain op sequences up to the stated lengths, every sequence on a fresh back end (persistent ones re-opened afterwards); non-trivial = sequence with a write followed by a read or list",
    );
    let mut classes = FailureClasses::new(2);
    let mut stats: BTreeMap<String, u64> = BTreeMap::new();
    let root = scratch_root();
    let _ = std::fs::create_dir_all(&root);
    let mut n = 0u64;
    for (b, w, seqs) in rep_cases {
        let name = backend_name(b, w);
        let t0 = std::time::Instant::now();
        let nseq = seqs.len();
        for ops in seqs {
            n += 1;
            let loc = format!("{}/{}", root, n);
            let key = format!("{}:{}", name, Value::from(ops.iter().map(|o| o.to_json()).collect::<Vec<_>>()));
            let first_w = ops.iter().position(|o| matches!(o, Op::W(_, _)));
            let nontrivial = first_w.map(|i| ops[i + 1..].iter().any(|o| !matches!(o, Op::W(_, _)))).unwrap_or(false);
            rep.case(&key, nontrivial);
            if let Err((class, what)) = run_seq(b, w, &ops, &loc) {
                let input = json!({"backend": name, "ops": ops.iter().map(|o| o.to_json()).collect::<Vec<_>>()});
                *stats.entry(format!("{}@{}", class, name)).or_insert(0) += 1;
                classes.fail(&mut rep, &class, &format!("{}:{}", class, key), input, &what);
            }
        }
        if std::env::var_os("MELDA_VERIF_TIMING").is_some() {
            eprintln!("[adapters] {}: {} sequences in {:?}", name, nseq, t0.elapsed());
        }
    }
    for b in [Base::Memory, Base::SqliteMem, Base::Filesystem, Base::SqliteFile] {
        for w in [Wrap::Bare, Wrap::Flate, Wrap::Brotli] {
            for family in ["tricky-listing", "big-slices", "codec-shaped"] {
                n += 1;
                let name = backend_name(b, w);
                let key = format!("{}:{}", name, family);
                rep.case(&key, true);
                if let Err((class, what)) = run_special(b, w, family, &format!("{}/{}", root, n)) {
                    let input = json!({"backend": name, "family": family});
                    *stats.entry(format!("{}@{}", class, name)).or_insert(0) += 1;
                    classes.fail(&mut rep, &class, &format!("{}:{}", class, key), input, &what);
                }
            }
        }
    }
    let _ = std::fs::remove_dir_all(&root);
    if !stats.is_empty() {
        eprintln!("[adapters] failing sequences per class@backend: {:?}", stats);
    }
    rep
}

pub fn replay(case: &Value) -> Value {
    let inp = &case["input"];
    let be = inp["backend"].as_str().and_then(parse_backend);
    if let (Some((b, w)), Some(family)) = (be, inp["family"].as_str()) {
        let root = format!("{}-replay", scratch_root());
        let _ = std::fs::create_dir_all(&root);
        let r = run_special(b, w, family, &format!("{}/1", root));
        let _ = std::fs::remove_dir_all(&root);
        return match r {
            Ok(()) => json!({"reproduced": false}),
            Err((class, what)) => json!({"reproduced": true, "class": class, "what": what}),
        };
    }
    let ops: Option<Vec<Op>> = inp["ops"].as_array().and_then(|a| a.iter().map(Op::from_json).collect());
    let (b, w, ops) = match (be, ops) {
        (Some((b, w)), Some(o)) => (b, w, o),
        _ => return json!({"reproduced": false, "error": "bad input"}),
    };
    let root = format!("{}-replay", scratch_root());
    let _ = std::fs::create_dir_all(&root);
    let r = run_seq(b, w, &ops, &format!("{}/1", root));
    let _ = std::fs::remove_dir_all(&root);
    match r {
        Ok(()) => json!({"reproduced": false}),
        Err((class, what)) => json!({"reproduced": true, "class": class, "what": what}),
    }
}
