//! Oracle registry. One file per oracle; each exposes `run(thorough, seed) -> Report` and
//! `replay(case) -> Value` (JSON with at least {"reproduced": bool}).
use crate::Report;
use serde_json::{json, Value};

pub mod adapters;
pub mod commit_faults;
pub mod delivery;
pub mod meld_audit;
pub mod orch;
pub mod resolve_api;
pub mod time_travel;
pub mod maintenance;
pub mod returns;
pub mod fidelity;
pub mod delta_roundtrip;
pub mod deltaid;
pub mod history;
pub mod array_chain;
pub mod junk_blocks;
pub mod cross_array;
pub mod user_hash;
pub mod merge;
pub mod stage_api;
pub mod pack;
pub mod patch;
pub mod revision;
pub mod tree;

pub fn run(name: &str, thorough: bool, seed: u64) -> Option<Report> {
    match name {
        "merge_arrays" => Some(merge::run(thorough, seed)),
        "user_hash" => Some(user_hash::run(thorough, seed)),
        "cross_array" => Some(cross_array::run(thorough, seed)),
        "stage_api" => Some(stage_api::run(thorough, seed)),
        "junk_blocks" => Some(junk_blocks::run(thorough, seed)),
        "array_chain" => Some(array_chain::run(thorough, seed)),
        "revision" => Some(revision::run(thorough, seed)),
        "tree" => Some(tree::run(thorough, seed)),
        "pack" => Some(pack::run(thorough, seed)),
        "deltaid" => Some(deltaid::run(thorough, seed)),
        "delta_roundtrip" => Some(delta_roundtrip::run(thorough, seed)),
        "adapters" => Some(adapters::run(thorough, seed)),
        "patch" => Some(patch::run(thorough, seed)),
        "history" => Some(history::run(thorough, seed)),
        "delivery" => Some(delivery::run(thorough, seed)),
        "commit_faults" => Some(commit_faults::run(thorough, seed)),
        "meld_audit" => Some(meld_audit::run(thorough, seed)),
        "resolve_api" => Some(resolve_api::run(thorough, seed)),
        "time_travel" => Some(time_travel::run(thorough, seed)),
        "maintenance" => Some(maintenance::run(thorough, seed)),
        "returns" => Some(returns::run(thorough, seed)),
        "fidelity" => Some(fidelity::run(thorough, seed)),
        _ => None,
    }
}

pub fn replay(name: &str, case: &Value) -> Value {
    match name {
        "merge_arrays" => merge::replay(case),
        "user_hash" => user_hash::replay(case),
        "cross_array" => cross_array::replay(case),
        "stage_api" => stage_api::replay(case),
        "junk_blocks" => junk_blocks::replay(case),
        "array_chain" => array_chain::replay(case),
        "revision" => revision::replay(case),
        "tree" => tree::replay(case),
        "pack" => pack::replay(case),
        "deltaid" => deltaid::replay(case),
        "delta_roundtrip" => delta_roundtrip::replay(case),
        "adapters" => adapters::replay(case),
        "patch" => patch::replay(case),
        "history" => history::replay(case),
        "delivery" => delivery::replay(case),
        "commit_faults" => commit_faults::replay(case),
        "meld_audit" => meld_audit::replay(case),
        "resolve_api" => resolve_api::replay(case),
        "time_travel" => time_travel::replay(case),
        "maintenance" => maintenance::replay(case),
        "returns" => returns::replay(case),
        "fidelity" => fidelity::replay(case),
        _ => json!({"reproduced": false, "error": "unknown oracle"}),
    }
}

/// run `f`, turning a panic of the code under test into Err(message)
pub fn guarded<T, F: FnOnce() -> T + std::panic::UnwindSafe>(f: F) -> Result<T, String> {
    std::panic::catch_unwind(f).map_err(|e| {
        if let Some(s) = e.downcast_ref::<&str>() {
            s.to_string()
        } else if let Some(s) = e.downcast_ref::<String>() {
            s.clone()
        } else {
            "panic".to_string()
        }
    })
}

/// Keeps the 5 failure slots of a `Report` informative: at most `max` failures per class are passed
/// on to `Report::fail`; all are counted (summary on stderr, never on stdout).
pub struct FailureClasses {
    pub counts: std::collections::BTreeMap<String, u64>,
    pub max: u64,
}

impl FailureClasses {
    pub fn new(max: u64) -> Self {
        FailureClasses { counts: std::collections::BTreeMap::new(), max }
    }
    pub fn fail(&mut self, rep: &mut Report, class: &str, case_id: &str, input: Value, what: &str) {
        let c = self.counts.entry(class.to_string()).or_insert(0);
        *c += 1;
        if *c <= self.max {
            rep.fail(case_id, input, what);
        }
    }
    pub fn total(&self) -> u64 {
        self.counts.values().sum()
    }
    pub fn summary(&self, oracle: &str) {
        if !self.counts.is_empty() {
            eprintln!("[{}] failing cases per class: {:?}", oracle, self.counts);
        }
    }
}
