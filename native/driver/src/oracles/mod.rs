//! Oracle registry. One file per oracle; each exposes `run(thorough, seed) -> Report` and
//! `replay(case) -> Value` (JSON with at least {"reproduced": bool}).
use crate::Report;
use serde_json::{json, Value};

pub mod merge;

pub fn run(name: &str, thorough: bool, seed: u64) -> Option<Report> {
    match name {
        "merge_arrays" => Some(merge::run(thorough, seed)),
        _ => None,
    }
}

pub fn replay(name: &str, case: &Value) -> Value {
    match name {
        "merge_arrays" => merge::replay(case),
        _ => json!({"reproduced": false, "error": "unknown oracle"}),
    }
}

/// run `f`, turning a panic of the code under test into Err(message)
pub fn guarded<T, F: FnOnce() -> T + std::panic::UnwindSafe>(f: F) -> Result<T, String> {
    std::panic::catch_unwind(f).map_err(|e| {
        if let Some(s) = e.downcast_ref::<&str>() {
            s.to_string()
        } else if let Some(s) = e.downcast_ref::<String>() {
            s.clone()
        } else {
            "panic".to_string()
        }
    })
}
