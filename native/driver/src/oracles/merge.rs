//! C06: utils::merge_arrays — executable form of the Verus contract in units/merge:
//!   no_dup(n'), set(n') == set(n) ∪ set(m), is_subseq(old n, n'),
//!   compatible(m, old n) ==> is_subseq(m, n').
//! Domain: all ordered pairs of duplicate-free sequences over K symbols up to length L.
use crate::Report;
use melda::vf::utils;
use serde_json::{json, Value};

fn seqs(k: usize, l: usize) -> Vec<Vec<u8>> {
    let mut out: Vec<Vec<u8>> = vec![vec![]];
    let mut frontier: Vec<Vec<u8>> = vec![vec![]];
    for _ in 0..l {
        let mut next = vec![];
        for s in &frontier {
            for c in 0..k as u8 {
                if !s.contains(&c) {
                    let mut t = s.clone();
                    t.push(c);
                    next.push(t);
                }
            }
        }
        out.extend(next.iter().cloned());
        frontier = next;
    }
    out
}

fn to_vals(s: &[u8]) -> Vec<Value> {
    s.iter().map(|c| Value::from(((b'A' + c) as char).to_string())).collect()
}

fn is_subseq(a: &[Value], b: &[Value]) -> bool {
    let mut i = 0;
    for x in b {
        if i < a.len() && a[i] == *x {
            i += 1;
        }
    }
    i == a.len()
}

fn no_dup(a: &[Value]) -> bool {
    for i in 0..a.len() {
        for j in i + 1..a.len() {
            if a[i] == a[j] {
                return false;
            }
        }
    }
    true
}

/// common elements appear in the same relative order in both
fn compatible(a: &[Value], b: &[Value]) -> bool {
    let ca: Vec<&Value> = a.iter().filter(|x| b.contains(x)).collect();
    let cb: Vec<&Value> = b.iter().filter(|x| a.contains(x)).collect();
    ca == cb
}

pub fn check(m: &[Value], n: &[Value]) -> Result<(), String> {
    let mm = m.to_vec();
    let mut out = n.to_vec();
    let r = super::guarded(move || {
        utils::merge_arrays(&mm, &mut out);
        out
    });
    let out = match r {
        Ok(o) => o,
        Err(p) => return Err(format!("panic: {}", p)),
    };
    if !no_dup(&out) {
        return Err(format!("duplicate element in result {}", Value::from(out)));
    }
    for x in m.iter().chain(n.iter()) {
        if !out.contains(x) {
            return Err(format!("element {} lost; result {}", x, Value::from(out.clone())));
        }
    }
    for x in &out {
        if !m.contains(x) && !n.contains(x) {
            return Err(format!("element {} invented; result {}", x, Value::from(out.clone())));
        }
    }
    if !is_subseq(n, &out) {
        return Err(format!("order of the base version not kept; result {}", Value::from(out)));
    }
    if compatible(m, n) && !is_subseq(m, &out) {
        return Err(format!("orders are compatible but order of the merged version not kept; result {}", Value::from(out)));
    }
    Ok(())
}

pub fn run(thorough: bool, _seed: u64) -> Report {
    let (k, l) = if thorough { (6, 5) } else { (5, 4) };
    let mut rep = Report::new(
        "merge_arrays",
        &format!("all ordered pairs of duplicate-free sequences over {} symbols, length <= {}", k, l),
        "exhaustive enumeration; non-trivial = both sequences non-empty and not equal",
    );
    let all = seqs(k, l);
    for a in &all {
        let m = to_vals(a);
        for b in &all {
            let n = to_vals(b);
            let key = format!("{:?}|{:?}", a, b);
            rep.case(&key, !a.is_empty() && !b.is_empty() && a != b);
            if let Err(w) = check(&m, &n) {
                rep.fail(&key, json!({"m": m, "n": n}), &w);
            }
        }
    }
    rep
}

pub fn replay(case: &Value) -> Value {
    let m = case["input"]["m"].as_array().cloned().unwrap_or_default();
    let n = case["input"]["n"].as_array().cloned().unwrap_or_default();
    match check(&m, &n) {
        Ok(()) => json!({"reproduced": false}),
        Err(w) => json!({"reproduced": true, "what": w}),
    }
}
