//! C04 through the PUBLIC API (`update`, `read`, `commit`, `Melda::new`, `meld`, `refresh`, `update_object`).
//! Property: after a document is submitted with update, reading the replica returns that document exactly (same keys,
//! values, array order and nesting) with only the identifier field added to each tracked object, from any prior state
//! (committed or not, merged or not, objects in conflict or not) in which no flattened array is in conflict.  While a
//! flattened array is in conflict every object of the submitted document still appears exactly once.
//!
//! Reference with_ids(doc), computed here by the rule update()/read() follow (utils::flatten / generate_identifier /
//! unflatten): the top-level object is tracked with id "√"; inside a tracked object a field whose key ends with "♭" is
//! followed: an object value is tracked, an array value is an array of tracked objects, anything else is a plain value;
//! every other field is stored verbatim (never followed).  A tracked object's id is its own "_id" or else the hex
//! SHA-256 of the concatenated path (ids of the enclosing tracked objects and ♭ keys leading to it).  with_ids adds
//! "_id" to every tracked object and changes nothing else (strings come back unchanged).
//! Well-formedness of the generated documents (what the library needs): identifiers are strings, not starting with "^",
//! not starting with "!" when the object is the direct value of a ♭ field, pairwise distinct within a document and
//! different from "√"; the top-level object has no "_id" (or "√"); elements of a ♭ array are objects; at most one object
//! without "_id" per ♭ array (two of them share a path digest — those documents are run in the family `collide:`, whose
//! outcome is only recorded as a note); no "_id" key inside plain values, no "#" key.
//! Documents: a hand-written list + seeded generated ones (tracked nesting depth <= 3; keys with and without ♭; null,
//! booleans, integers incl. negative / i64::MIN / u64::MAX, floats, strings incl. empty, unicode, starting with "!", "^",
//! "√", containing quotes, backslashes, braces; plain nested objects and arrays, also with ♭-looking keys inside; ♭ objects
//! with and without "_id", empty; ♭ arrays of objects incl. empty arrays and ♭ arrays inside elements of ♭ arrays; the same
//! content under different identifiers).
//! States (d2 = the document of the case, d1 / d3 = its neighbours in the list), then update(d2) and
//! read(None) == with_ids(d2); commit (Ok), same; reopen with Melda::new, same:
//!   fresh        empty replica                      staged      update(d1), nothing committed
//!   committed    update(d1), commit                 history     d1, d3, d1 committed one after the other
//!   merged       A: d1; B melds, adds an object, commits; A melds B + refresh (no conflict)
//!   conflict     A and B replace one tracked object of d1 concurrently, A melds B + refresh: OBJECT conflict
//!   remove       prior document = d2 + an extra ♭ object and ♭ array (with nesting), committed
//!   readd        d2 + array ra♭ committed; d2 (array removed) committed; then d2 + ra♭ with other elements
//!   readd-empty  d2 + ra♭ committed; d2 (array removed, NOT committed); then d2 + ra♭ = []
//!   move         d2 + mp♭=[m1,m2], mq♭=[m3] committed; then m1 moved to the end of mq♭
//!   repeat       d2 + rp♭=[r1,r2,r3], rq♭=[] committed; first element of rp♭ moved to rq♭, committed; then the first
//!                element moved AGAIN (the same edit script on rp♭ twice in a row); repeat-staged: no commit in between
//!   same         d2 committed, submitted again        reread      d2 committed; what read(None) returned is submitted
//!   arrayconflict  A and B append different elements to cx♭, A melds B + refresh (ARRAY conflict); update(d2 + cx♭ in
//!                another order with a new element); every id of the submitted document occurs exactly once in read(None)
//!                (no equality required, no commit)
//!   arrayconflict-commit  the same followed by commit (which resolves the array conflict): read(None) == with_ids exactly
//!                afterwards, also after reopen
//!   move-vs-append  A moves o from p♭ to q♭, B appends to p♭, A melds B + refresh (p♭ has two leaves, its merged order
//!                still lists o); update(d2 + o kept in q♭): every id exactly once, o in q♭ only; commit: exact equality
//!   same-position  A and B insert different elements at the same position of s♭; the document read back (both elements)
//!                is submitted without whichever of the two comes first: every id exactly once; commit: exact equality
//! Case id `<state>:<doc>` (doc = h<k> hand-written, g<seed>-<i> generated); guarded; 10 s watchdog.
use super::orch::{self, Out, Rng};
use super::FailureClasses;
use crate::Report;
use melda::melda::Melda;
use melda::vf::utils::digest_string;
use serde_json::{json, Map, Value};
use std::collections::BTreeMap;
use std::sync::mpsc::channel;
use std::time::Duration;

const F: &str = "\u{266D}";
const ROOT: &str = "\u{221A}";

fn fk(s: &str) -> String {
    format!("{}{}", s, F)
}

// ------------------------------------------------------------------------------------------ reference

fn tracked(o: &Map<String, Value>, path: &[String]) -> Value {
    let id = match o.get("_id").and_then(|v| v.as_str()) {
        Some(s) => s.to_string(),
        None if path.is_empty() => ROOT.to_string(),
        None => digest_string(&path.join("")),
    };
    let mut fpath = path.to_vec();
    fpath.push(id.clone());
    let mut out = Map::new();
    out.insert("_id".into(), json!(id));
    for (k, v) in o {
        if k == "_id" {
            continue;
        }
        if k.ends_with(F) {
            let mut p = fpath.clone();
            p.push(k.clone());
            let nv = match v {
                Value::Object(x) => tracked(x, &p),
                Value::Array(a) => Value::Array(a.iter().map(|e| match e {
                    Value::Object(x) => tracked(x, &p),
                    other => other.clone(),
                }).collect()),
                other => other.clone(),
            };
            out.insert(k.clone(), nv);
        } else {
            out.insert(k.clone(), v.clone());
        }
    }
    Value::Object(out)
}

pub fn with_ids(doc: &Map<String, Value>) -> Value {
    tracked(doc, &[])
}

/// ids of the tracked objects of a with_ids document (root excluded), in document order
fn tracked_ids(v: &Value, top: bool, out: &mut Vec<String>) {
    if let Value::Object(o) = v {
        if !top {
            if let Some(id) = o.get("_id").and_then(|x| x.as_str()) {
                out.push(id.to_string());
            }
        }
        for (k, x) in o {
            if k.ends_with(F) {
                match x {
                    Value::Object(_) => tracked_ids(x, false, out),
                    Value::Array(a) => a.iter().for_each(|e| tracked_ids(e, false, out)),
                    _ => {}
                }
            }
        }
    }
}

fn diff(a: &Value, b: &Value, path: &str) -> Option<String> {
    if a == b {
        return None;
    }
    match (a, b) {
        (Value::Object(x), Value::Object(y)) => {
            for k in x.keys().chain(y.keys()) {
                match (x.get(k), y.get(k)) {
                    (Some(p), Some(q)) => {
                        if let Some(d) = diff(p, q, &format!("{}/{}", path, k)) {
                            return Some(d);
                        }
                    }
                    (Some(p), None) => return Some(format!("at {}/{}: read has {}, expected nothing", path, k, clip(p))),
                    (None, Some(q)) => return Some(format!("at {}/{}: read has nothing, expected {}", path, k, clip(q))),
                    _ => {}
                }
            }
            None
        }
        (Value::Array(x), Value::Array(y)) => {
            for i in 0..x.len().max(y.len()) {
                match (x.get(i), y.get(i)) {
                    (Some(p), Some(q)) => {
                        if let Some(d) = diff(p, q, &format!("{}[{}]", path, i)) {
                            return Some(d);
                        }
                    }
                    (p, q) => return Some(format!("at {}[{}]: read has {}, expected {}", path, i, p.map(clip).unwrap_or("nothing".into()), q.map(clip).unwrap_or("nothing".into()))),
                }
            }
            None
        }
        _ => Some(format!("at {}: read has {}, expected {}", if path.is_empty() { "/" } else { path }, clip(a), clip(b))),
    }
}

fn clip(v: &Value) -> String {
    let s = v.to_string();
    if s.chars().count() > 160 {
        format!("{}…", s.chars().take(160).collect::<String>())
    } else {
        s
    }
}

// ------------------------------------------------------------------------------------------ documents

fn hand_written() -> Vec<Map<String, Value>> {
    let o = orch::obj;
    let mut v: Vec<Value> = vec![];
    v.push(json!({}));
    v.push(json!({"title": "t", "n": 1, "f": 1.5, "b": true, "z": null, "e": "", "arr": [1, "x", [2, {"k": null}], {"y": [true]}], "o": {"p": {"q": -7}}}));
    let mut d = Map::new();
    d.insert(fk("a"), json!({"_id": "x", "v": 1}));
    d.insert(fk("b"), json!({"_id": "y", "v": 1}));
    v.push(Value::Object(d));
    // scalars directly under ♭ keys, strings that look like references or escapes
    let mut d = Map::new();
    d.insert(fk("s0"), json!(""));
    d.insert(fk("s1"), json!("!bang"));
    d.insert(fk("s2"), json!("^caret"));
    d.insert(fk("s3"), json!(ROOT));
    d.insert(fk("s4"), json!("x"));
    d.insert(fk("n"), json!(-12));
    d.insert(fk("t"), json!(true));
    d.insert(fk("z"), json!(null));
    d.insert(fk("a"), json!({"_id": "x", "ref": "x", "esc": "!x", "car": "^x"}));
    d.insert("plain".into(), json!(["!bang", "^caret", ROOT, "x"]));
    v.push(Value::Object(d));
    // arrays: with ids, empty, nested, an element without _id, ids with odd characters (a leading "!" only inside arrays)
    let mut inner = Map::new();
    inner.insert("_id".into(), json!("e2"));
    inner.insert(fk("sub"), json!([{"_id": "e2a", "n": 1}, {"_id": "e2b", "n": 2}]));
    inner.insert(fk("none"), json!([]));
    let mut d = Map::new();
    d.insert(fk("list"), json!([{"_id": "e1", "v": [1, 2]}, Value::Object(inner), {"noid": true}, {"_id": "!e4"}, {"_id": "q\"e}5{"}, {"_id": "ü6"}, {"_id": "√7"}]));
    d.insert(fk("empty"), json!([]));
    v.push(Value::Object(d));
    // objects without _id at several levels, empty tracked objects, same content under different ids
    let mut deep = Map::new();
    deep.insert(fk("in"), json!({"v": 1}));
    deep.insert("k".into(), json!("q\"uote \\ back {brace} [x]"));
    let mut mid = Map::new();
    mid.insert(fk("deep"), Value::Object(deep));
    let mut d = Map::new();
    d.insert(fk("mid"), Value::Object(mid));
    d.insert(fk("void"), json!({}));
    d.insert(fk("void2"), json!({"_id": "v2"}));
    d.insert(fk("same1"), json!({"_id": "s1", "c": [1, {"d": 2}]}));
    d.insert(fk("same2"), json!({"_id": "s2", "c": [1, {"d": 2}]}));
    d.insert(fk("same3"), json!([{"_id": "s3", "c": [1, {"d": 2}]}]));
    v.push(Value::Object(d));
    // numbers
    v.push(json!({"i": [0, -1, 42, i64::MIN, u64::MAX], "f": [1.5, -2.5e-7, 1e300, 3.0, 0.1], "nested": {"big": 123456789012345678u64}}));
    let mut d = Map::new();
    d.insert(fk("num"), json!({"_id": "nums", "i": i64::MIN, "u": u64::MAX, "f": -2.5e-7, "g": 1e300}));
    v.push(Value::Object(d));
    // plain values holding ♭-looking keys are stored verbatim, not followed
    let mut p = Map::new();
    p.insert(fk("looks"), json!({"v": 1}));
    p.insert(fk("arr"), json!([{"w": 2}]));
    let mut d = Map::new();
    d.insert("plain".into(), Value::Object(p.clone()));
    d.insert("plainarr".into(), json!([Value::Object(p)]));
    d.insert(fk("t"), json!({"_id": "t1", "plain": {"a": {"b": [1, {"c": "}{"}]}}}));
    v.push(Value::Object(d));
    // unicode keys, long strings, strings with newlines
    let mut d = Map::new();
    d.insert("ключ".into(), json!("значение ✓ 🎈"));
    d.insert(fk("ü"), json!({"_id": "üid", "s": "line\nbreak\ttab", "long": "x".repeat(300)}));
    d.insert(fk("l"), json!([{"_id": "l1", "ключ": "é"}, {"_id": "l2"}]));
    v.push(Value::Object(d));
    // three levels of arrays in arrays
    let mut l3 = Map::new();
    l3.insert("_id".into(), json!("c1"));
    l3.insert(fk("gc"), json!([{"_id": "g1", "v": 1}, {"_id": "g2", "v": 2}]));
    let mut l2 = Map::new();
    l2.insert("_id".into(), json!("p1"));
    l2.insert(fk("ch"), json!([Value::Object(l3), {"_id": "c2"}]));
    let mut d = Map::new();
    d.insert(fk("top"), json!([Value::Object(l2), {"_id": "p2", "t": "x"}]));
    v.push(Value::Object(d));
    // the same ids as document 2 in other places (objects move between a field and an array)
    let mut d = Map::new();
    d.insert(fk("list"), json!([{"_id": "y", "v": 2}, {"_id": "x", "v": 1}]));
    v.push(Value::Object(d));
    v.into_iter().map(o).collect()
}

const STRINGS: [&str; 14] = ["", "plain", "üñí✓", "!bang", "^caret", "\u{221A}root", "q\"uote", "back\\slash", "br{ace}", "[x]", "line\nbreak", " spaced ", "}", "{\"a\":1}"];
const KEYS: [&str; 8] = ["a", "b", "c", "k", "n", "s", "t", "ü"];

struct Gen {
    rng: Rng,
    next_id: u32,
    last_content: Option<Map<String, Value>>,
}

impl Gen {
    fn scalar(&mut self) -> Value {
        match self.rng.below(9) {
            0 => Value::Null,
            1 => json!(self.rng.below(2) == 0),
            2 => json!([0i64, -1, 42, i64::MIN, 7][self.rng.below(5)]),
            3 => json!(u64::MAX),
            4 => json!([1.5, -2.5e-7, 1e300, 3.0, 0.1][self.rng.below(5)]),
            _ => json!(STRINGS[self.rng.below(STRINGS.len())]),
        }
    }
    fn plain(&mut self, depth: usize) -> Value {
        match self.rng.below(if depth == 0 { 4 } else { 7 }) {
            0..=3 => self.scalar(),
            4 => Value::Array((0..self.rng.below(4)).map(|_| self.plain(depth - 1)).collect()),
            _ => {
                let mut m = Map::new();
                for _ in 0..self.rng.below(3) {
                    let k = KEYS[self.rng.below(KEYS.len())];
                    let key = if self.rng.below(5) == 0 { fk(k) } else { k.to_string() };
                    m.insert(key, self.plain(depth - 1));
                }
                Value::Object(m)
            }
        }
    }
    fn id(&mut self, in_array: bool) -> String {
        self.next_id += 1;
        let n = self.next_id;
        match self.rng.below(8) {
            0 => format!("ü{}", n),
            1 => format!("q\"{}", n),
            2 => format!("}}{{{}", n),
            3 => format!("{}x{}", ROOT, n),
            4 if in_array => format!("!e{}", n),
            _ => format!("id{}", n),
        }
    }
    /// fields of a tracked object (without "_id")
    fn fields(&mut self, depth: usize) -> Map<String, Value> {
        if self.rng.below(8) == 0 {
            if let Some(c) = &self.last_content {
                return c.clone(); // the same content under another identifier
            }
        }
        let mut m = Map::new();
        for _ in 0..self.rng.below(5) {
            let k = KEYS[self.rng.below(KEYS.len())];
            if self.rng.below(2) == 0 {
                m.insert(k.to_string(), self.plain(2));
                continue;
            }
            let key = fk(k);
            let v = match self.rng.below(if depth == 0 { 2 } else { 6 }) {
                0 | 1 => self.scalar(),
                2 | 3 => self.object(depth - 1, false, true),
                _ => {
                    let n = self.rng.below(4);
                    let idless_at = if self.rng.below(4) == 0 { Some(self.rng.below(n.max(1))) } else { None };
                    Value::Array((0..n).map(|i| self.object(depth - 1, true, idless_at == Some(i))).collect())
                }
            };
            m.insert(key, v);
        }
        // ids used below this object make its content unique, so only leaf-like content is remembered
        if !m.keys().any(|k| k.ends_with(F)) {
            self.last_content = Some(m.clone());
        }
        m
    }
    fn object(&mut self, depth: usize, in_array: bool, may_be_idless: bool) -> Value {
        let mut m = self.fields(depth);
        if !(may_be_idless && self.rng.below(if in_array { 1 } else { 3 }) == 0) {
            let id = self.id(in_array);
            m.insert("_id".into(), json!(id));
        }
        Value::Object(m)
    }
}

fn generated(seed: u64, i: usize) -> Map<String, Value> {
    let mut g = Gen { rng: Rng::new(seed.wrapping_mul(104_729).wrapping_add(i as u64)), next_id: 0, last_content: None };
    let mut m = g.fields(3);
    // two draws for the top level, so that few documents come out empty
    let more = g.fields(3);
    for (k, v) in more {
        m.entry(k).or_insert(v);
    }
    // the same content can carry ♭ fields with ids: make sure ids stay pairwise distinct
    let mut seen = std::collections::BTreeSet::new();
    dedupe_ids(&mut m, &mut seen, &mut 1000);
    m
}

fn dedupe_ids(m: &mut Map<String, Value>, seen: &mut std::collections::BTreeSet<String>, next: &mut u32) {
    if let Some(id) = m.get("_id").and_then(|v| v.as_str()).map(|s| s.to_string()) {
        if !seen.insert(id) {
            *next += 1;
            let fresh = format!("id{}", next);
            seen.insert(fresh.clone());
            m.insert("_id".into(), json!(fresh));
        }
    }
    for (k, v) in m.iter_mut() {
        if k.ends_with(F) {
            match v {
                Value::Object(x) => dedupe_ids(x, seen, next),
                Value::Array(a) => a.iter_mut().for_each(|e| {
                    if let Value::Object(x) = e {
                        dedupe_ids(x, seen, next)
                    }
                }),
                _ => {}
            }
        }
    }
}

fn collide_docs() -> Vec<Map<String, Value>> {
    let mut out = vec![];
    let mut d = Map::new();
    d.insert(fk("l"), json!([{"v": 1}, {"v": 2}]));
    out.push(d);
    let mut d = Map::new();
    d.insert(fk("l"), json!([{"_id": "a"}, {"v": 1}, {"v": 1}]));
    out.push(d);
    let mut d = Map::new();
    d.insert(fk("l"), json!([{"v": 1}, {"_id": "b", "w": 0}, {}]));
    out.push(d);
    out
}

// ------------------------------------------------------------------------------------------ states

const STATES: [&str; 18] = [
    "fresh", "staged", "committed", "history", "merged", "conflict", "remove", "readd", "readd-empty", "move", "repeat", "repeat-staged", "same", "reread", "arrayconflict",
    "arrayconflict-commit", "move-vs-append", "same-position",
];

fn plus(d: &Map<String, Value>, extra: Vec<(String, Value)>) -> Map<String, Value> {
    let mut m = d.clone();
    for (k, v) in extra {
        m.insert(k, v);
    }
    m
}

fn upd(m: &Melda, d: &Map<String, Value>, what: &str) -> Result<(), String> {
    let d = d.clone();
    orch::ge(what, move || m.update(d)).map(|_| ())
}

fn commit(m: &Melda, what: &str) -> Result<(), String> {
    orch::ge(what, || m.commit(None)).map(|_| ())
}

fn sync(dst: &mut Melda, src: &Melda, what: &str) -> Result<(), String> {
    orch::ge(&format!("{}: meld", what), || dst.meld(src))?;
    orch::ge(&format!("{}: refresh", what), || dst.refresh())
}

fn read_doc(m: &Melda) -> Result<Value, String> {
    match orch::g(|| m.read(None)) {
        Ok(Ok(v)) => Ok(Value::Object(v)),
        Ok(Err(e)) => Err(format!("read(None) is Err({})", e)),
        Err(p) => Err(format!("panic: read(None): {}", p.lines().next().unwrap_or(""))),
    }
}

fn expect_read(m: &Melda, want: &Value, ctx: &str, bad: &mut Vec<String>) {
    match read_doc(m) {
        Ok(got) => {
            if let Some(d) = diff(&got, want, "") {
                bad.push(format!("{}: read(None) differs from the submitted document; {}", ctx, d));
            }
        }
        Err(e) => bad.push(format!("{}: {}", ctx, e)),
    }
}

/// update(target) + the three read checks
fn submit_and_check(m: &Melda, ad: &orch::Dyn, target: &Map<String, Value>, bad: &mut Vec<String>) {
    let want = with_ids(target);
    let t = target.clone();
    match orch::g(move || m.update(t)) {
        Ok(Ok(_)) => {}
        Ok(Err(e)) => {
            bad.push(format!("update(d2) is Err({})", e));
            return;
        }
        Err(p) => {
            bad.push(format!("panic: update(d2): {}", p.lines().next().unwrap_or("")));
            return;
        }
    }
    expect_read(m, &want, "after update", bad);
    match orch::g(|| m.commit(None)) {
        Ok(Ok(_)) => {}
        Ok(Err(e)) => {
            bad.push(format!("commit is Err({})", e));
            return;
        }
        Err(p) => {
            bad.push(format!("panic: commit: {}", p.lines().next().unwrap_or("")));
            return;
        }
    }
    expect_read(m, &want, "after commit", bad);
    match orch::open(ad) {
        Ok(f) => expect_read(&f, &want, "after reopen", bad),
        Err(e) => bad.push(format!("reopen: {}", e)),
    }
}

/// A holds d1 + cx♭ with an array conflict on cx♭
fn array_conflict(d1: &Map<String, Value>) -> Result<(Melda, orch::Dyn), String> {
    let cx = |ids: &[&str]| (fk("cx"), Value::Array(ids.iter().map(|i| json!({"_id": i, "n": i.len()})).collect()));
    let ad = orch::mem();
    let mut a = orch::open(&ad)?;
    upd(&a, &plus(d1, vec![cx(&["cx1", "cx2"])]), "A.update(base)")?;
    commit(&a, "A.commit(base)")?;
    let mut b = orch::open(&orch::mem())?;
    sync(&mut b, &a, "B takes the base")?;
    upd(&a, &plus(d1, vec![cx(&["cx1", "cx2", "cx3"])]), "A.update(append cx3)")?;
    commit(&a, "A.commit")?;
    upd(&b, &plus(d1, vec![cx(&["cx1", "cx2", "cx4"])]), "B.update(append cx4)")?;
    commit(&b, "B.commit")?;
    sync(&mut a, &b, "A melds B")?;
    let c = orch::g(|| a.in_conflict()).map_err(|p| format!("panic in in_conflict: {}", p))?;
    if !c.iter().any(|o| o.starts_with('^')) {
        return Err(format!("driver: no array conflict, in_conflict() = {:?}", c));
    }
    Ok((a, ad))
}

fn array_conflict_target(d2: &Map<String, Value>) -> Map<String, Value> {
    plus(d2, vec![(fk("cx"), json!([{"_id": "cx2", "n": 3}, {"_id": "cx1", "n": 3}, {"_id": "cx3", "n": 3}, {"_id": "cx9", "n": 9}]))])
}

fn once_each(m: &Melda, target: &Map<String, Value>, ctx: &str, bad: &mut Vec<String>) {
    let mut want = vec![];
    tracked_ids(&with_ids(target), true, &mut want);
    match read_doc(m) {
        Err(e) => bad.push(format!("{}: {}", ctx, e)),
        Ok(got) => {
            let mut have = vec![];
            tracked_ids(&got, true, &mut have);
            let mut count: BTreeMap<&String, usize> = BTreeMap::new();
            for h in &have {
                *count.entry(h).or_insert(0) += 1;
            }
            for w in &want {
                let n = count.get(w).copied().unwrap_or(0);
                if n != 1 {
                    bad.push(format!("{}: object {} of the submitted document appears {} time(s) in read(None) = {}", ctx, w, n, clip(&got)));
                    return;
                }
            }
        }
    }
}

fn run_state(state: &str, d1: &Map<String, Value>, d2: &Map<String, Value>, d3: &Map<String, Value>) -> Result<Vec<String>, String> {
    let mut bad = vec![];
    let ad = orch::mem();
    let mut a = orch::open(&ad)?;
    let mut target = d2.clone();
    match state {
        "fresh" => {}
        "staged" => upd(&a, d1, "update(d1)")?,
        "committed" => {
            upd(&a, d1, "update(d1)")?;
            commit(&a, "commit(d1)")?;
        }
        "history" => {
            for (i, d) in [d1, d3, d1].iter().enumerate() {
                upd(&a, d, &format!("update #{}", i + 1))?;
                commit(&a, &format!("commit #{}", i + 1))?;
            }
        }
        "merged" => {
            upd(&a, d1, "A.update(d1)")?;
            commit(&a, "A.commit")?;
            let mut b = orch::open(&orch::mem())?;
            sync(&mut b, &a, "B takes d1")?;
            upd(&b, &plus(d1, vec![(fk("zz"), json!({"_id": "zz-extra", "v": 1}))]), "B.update")?;
            commit(&b, "B.commit")?;
            sync(&mut a, &b, "A melds B")?;
            let c = orch::g(|| a.in_conflict()).map_err(|p| format!("panic in in_conflict: {}", p))?;
            if !c.is_empty() {
                return Err(format!("driver: unexpected conflict {:?}", c));
            }
        }
        "conflict" => {
            upd(&a, d1, "A.update(d1)")?;
            commit(&a, "A.commit")?;
            let mut b = orch::open(&orch::mem())?;
            sync(&mut b, &a, "B takes d1")?;
            let mut ids = vec![];
            tracked_ids(&with_ids(d1), true, &mut ids);
            let x = ids.first().cloned().unwrap_or_else(|| ROOT.to_string());
            orch::ge("A.update_object(X)", || a.update_object(&x, orch::obj(json!({"conflictA": 1}))))?;
            commit(&a, "A.commit X")?;
            orch::ge("B.update_object(X)", || b.update_object(&x, orch::obj(json!({"conflictB": 2}))))?;
            commit(&b, "B.commit X")?;
            sync(&mut a, &b, "A melds B")?;
            let c = orch::g(|| a.in_conflict()).map_err(|p| format!("panic in in_conflict: {}", p))?;
            if !c.contains(&x) || c.iter().any(|o| o.starts_with('^')) {
                return Err(format!("driver: expected exactly an object conflict on {}, in_conflict() = {:?}", x, c));
            }
        }
        "remove" => {
            let mut nested = Map::new();
            nested.insert("_id".into(), json!("zy2"));
            nested.insert(fk("in"), json!({"_id": "zy3", "w": [1]}));
            let prior = plus(d2, vec![(fk("zx"), json!({"_id": "zx-obj", "v": [1, 2]})), (fk("zy"), json!([{"_id": "zy1"}, Value::Object(nested)]))]);
            upd(&a, &prior, "update(d2 + extras)")?;
            commit(&a, "commit")?;
        }
        "readd" | "readd-empty" => {
            let prior = plus(d2, vec![(fk("ra"), json!([{"_id": "ra1", "n": 1}, {"_id": "ra2"}]))]);
            upd(&a, &prior, "update(d2 + ra)")?;
            commit(&a, "commit")?;
            upd(&a, d2, "update(d2 without ra)")?;
            if state == "readd" {
                commit(&a, "commit (ra removed)")?;
                target = plus(d2, vec![(fk("ra"), json!([{"_id": "ra2"}, {"_id": "ra9", "n": 9}]))]);
            } else {
                target = plus(d2, vec![(fk("ra"), json!([]))]);
            }
        }
        "move" => {
            let prior = plus(d2, vec![(fk("mp"), json!([{"_id": "m1", "v": 1}, {"_id": "m2", "v": 2}])), (fk("mq"), json!([{"_id": "m3", "v": 3}]))]);
            upd(&a, &prior, "update(d2 + mp, mq)")?;
            commit(&a, "commit")?;
            target = plus(d2, vec![(fk("mp"), json!([{"_id": "m2", "v": 2}])), (fk("mq"), json!([{"_id": "m3", "v": 3}, {"_id": "m1", "v": 1}]))]);
        }
        "repeat" | "repeat-staged" => {
            // the same edit script twice in a row on rp♭: its first element leaves (to rq♭, so the object stays alive),
            // then its first element leaves again
            let arr = |k: &str, ids: &[&str]| (fk(k), Value::Array(ids.iter().map(|i| json!({"_id": i})).collect()));
            upd(&a, &plus(d2, vec![arr("rp", &["r1", "r2", "r3"]), arr("rq", &[])]), "update(d2 + rp, rq)")?;
            commit(&a, "commit")?;
            upd(&a, &plus(d2, vec![arr("rp", &["r2", "r3"]), arr("rq", &["r1"])]), "update(first element moved)")?;
            if state == "repeat" {
                commit(&a, "commit")?;
            }
            target = plus(d2, vec![arr("rp", &["r3"]), arr("rq", &["r1", "r2"])]);
        }
        "same" => {
            upd(&a, d2, "update(d2)")?;
            commit(&a, "commit")?;
        }
        "reread" => {
            upd(&a, d2, "update(d2)")?;
            commit(&a, "commit")?;
            target = match read_doc(&a)? {
                Value::Object(o) => o,
                _ => return Err("driver: read is not an object".into()),
            };
            let want = with_ids(d2);
            if Value::Object(target.clone()) != want {
                bad.push(format!("before the re-submission: read(None) differs from the submitted document; {}", diff(&Value::Object(target.clone()), &want, "").unwrap_or_default()));
            }
        }
        "arrayconflict" => {
            let (a2, _ad2) = array_conflict(d1)?;
            let target = array_conflict_target(d2);
            upd(&a2, &target, "update(d2 + cx)").map_err(|e| format!("in the array conflict: {}", e)).unwrap_or_else(|e| bad.push(e));
            once_each(&a2, &target, "array in conflict, after update", &mut bad);
            return Ok(bad);
        }
        "arrayconflict-commit" => {
            // committing while the array is in conflict resolves it: afterwards the submitted document is read back exactly
            let (a2, ad2) = array_conflict(d1)?;
            let target = array_conflict_target(d2);
            upd(&a2, &target, "update(d2 + cx)").map_err(|e| format!("in the array conflict: {}", e)).unwrap_or_else(|e| bad.push(e));
            once_each(&a2, &target, "array in conflict, after update", &mut bad);
            commit(&a2, "commit with the array in conflict").unwrap_or_else(|e| bad.push(e));
            let want = with_ids(&target);
            expect_read(&a2, &want, "after the commit that resolves the array", &mut bad);
            match orch::open(&ad2) {
                Ok(f) => expect_read(&f, &want, "after reopen", &mut bad),
                Err(e) => bad.push(format!("reopen: {}", e)),
            }
            return Ok(bad);
        }
        "move-vs-append" => {
            // A moves o from p♭ to q♭ while B appends to p♭; after the meld p♭ has two leaves and its merged order still
            // lists o; the submitted document keeps o in q♭ only
            let arr = |k: &str, ids: &[&str]| (fk(k), Value::Array(ids.iter().map(|i| json!({"_id": i, "n": 1})).collect()));
            upd(&a, &plus(d2, vec![arr("p", &["mv-o", "mv-p1"]), arr("q", &["mv-q1"])]), "A.update(base)")?;
            commit(&a, "A.commit(base)")?;
            let mut b = orch::open(&orch::mem())?;
            sync(&mut b, &a, "B takes the base")?;
            upd(&a, &plus(d2, vec![arr("p", &["mv-p1"]), arr("q", &["mv-q1", "mv-o"])]), "A.update(o moved to q)")?;
            commit(&a, "A.commit")?;
            upd(&b, &plus(d2, vec![arr("p", &["mv-o", "mv-p1", "mv-p2"]), arr("q", &["mv-q1"])]), "B.update(append p2)")?;
            commit(&b, "B.commit")?;
            sync(&mut a, &b, "A melds B")?;
            let c = orch::g(|| a.in_conflict()).map_err(|p| format!("panic in in_conflict: {}", p))?;
            if !c.iter().any(|o| o.starts_with('^')) {
                return Err(format!("driver: no array conflict, in_conflict() = {:?}", c));
            }
            let target = plus(d2, vec![arr("p", &["mv-p1", "mv-p2"]), arr("q", &["mv-q1", "mv-o"])]);
            upd(&a, &target, "update(d2, o kept in q)").unwrap_or_else(|e| bad.push(e));
            once_each(&a, &target, "p in conflict, after update", &mut bad);
            let ids_in = |doc: &Value, key: &str| -> Vec<String> { doc.get(fk(key)).and_then(|x| x.as_array()).map(|x| x.iter().filter_map(|e| e.get("_id").and_then(|i| i.as_str()).map(|s| s.to_string())).collect()).unwrap_or_default() };
            match read_doc(&a) {
                Ok(got) => {
                    if ids_in(&got, "p").contains(&"mv-o".to_string()) || !ids_in(&got, "q").contains(&"mv-o".to_string()) {
                        bad.push(format!("after update: o must be in q only, but p = {:?}, q = {:?}", ids_in(&got, "p"), ids_in(&got, "q")));
                    }
                }
                Err(e) => bad.push(e),
            }
            commit(&a, "commit with p in conflict").unwrap_or_else(|e| bad.push(e));
            let want = with_ids(&target);
            expect_read(&a, &want, "after the commit that resolves the array", &mut bad);
            match orch::open(&ad) {
                Ok(f) => expect_read(&f, &want, "after reopen", &mut bad),
                Err(e) => bad.push(format!("reopen: {}", e)),
            }
            return Ok(bad);
        }
        "same-position" => {
            // A inserts c, B inserts x at the same position of s♭ = [sa, sb]; the merged read holds both; the submitted
            // document drops whichever of the two comes first
            let arr = |ids: &[String]| (fk("s"), Value::Array(ids.iter().map(|i| json!({"_id": i, "n": 1})).collect()));
            let v = |ids: &[&str]| ids.iter().map(|s| s.to_string()).collect::<Vec<String>>();
            upd(&a, &plus(d2, vec![arr(&v(&["sa", "sb"]))]), "A.update(base)")?;
            commit(&a, "A.commit(base)")?;
            let mut b = orch::open(&orch::mem())?;
            sync(&mut b, &a, "B takes the base")?;
            upd(&a, &plus(d2, vec![arr(&v(&["sa", "sc", "sb"]))]), "A.update(insert sc)")?;
            commit(&a, "A.commit")?;
            upd(&b, &plus(d2, vec![arr(&v(&["sa", "sx", "sb"]))]), "B.update(insert sx)")?;
            commit(&b, "B.commit")?;
            sync(&mut a, &b, "A melds B")?;
            let merged: Vec<String> = read_doc(&a)?.get(fk("s")).and_then(|x| x.as_array()).map(|x| x.iter().filter_map(|e| e.get("_id").and_then(|i| i.as_str()).map(|s| s.to_string())).collect()).unwrap_or_default();
            let mut sorted = merged.clone();
            sorted.sort();
            if sorted != v(&["sa", "sb", "sc", "sx"]) {
                return Err(format!("driver: the merged read of s is {:?}, expected sa, sb and both concurrent elements", merged));
            }
            let first = merged.iter().find(|i| *i == "sc" || *i == "sx").cloned().unwrap_or_default();
            let kept: Vec<String> = merged.iter().filter(|i| **i != first).cloned().collect();
            let target = plus(d2, vec![arr(&kept)]);
            upd(&a, &target, "update(d2, first concurrent element dropped)").unwrap_or_else(|e| bad.push(e));
            once_each(&a, &target, "s in conflict, after update", &mut bad);
            commit(&a, "commit with s in conflict").unwrap_or_else(|e| bad.push(e));
            let want = with_ids(&target);
            expect_read(&a, &want, &format!("after the commit that resolves the array (merged {:?}, submitted {:?})", merged, kept), &mut bad);
            match orch::open(&ad) {
                Ok(f) => expect_read(&f, &want, "after reopen", &mut bad),
                Err(e) => bad.push(format!("reopen: {}", e)),
            }
            return Ok(bad);
        }
        other => return Err(format!("driver: unknown state {}", other)),
    }
    let _ = &mut a;
    submit_and_check(&a, &ad, &target, &mut bad);
    Ok(bad)
}

// ------------------------------------------------------------------------------------------ driver

fn doc_by_id(id: &str) -> Option<Map<String, Value>> {
    if let Some(k) = id.strip_prefix('h') {
        return hand_written().get(k.parse::<usize>().ok()?).cloned();
    }
    let (s, i) = id.strip_prefix('g')?.split_once('-')?;
    Some(generated(s.parse().ok()?, i.parse().ok()?))
}

fn doc_ids(seed: u64, n_generated: usize) -> Vec<String> {
    let mut v: Vec<String> = (0..hand_written().len()).map(|k| format!("h{}", k)).collect();
    v.extend((0..n_generated).map(|i| format!("g{}-{}", seed, i)));
    v
}

fn one_case(state: &str, ids: &[String], j: usize, out: &Out) {
    let n = ids.len();
    let id = format!("{}:{}", state, ids[j]);
    let input = json!({"state": state, "doc": ids[j], "d1": ids[(j + 1) % n], "d3": ids[(j + 2) % n]});
    out.begin(&id, input.clone());
    out.case(&id, true);
    let docs: Option<Vec<Map<String, Value>>> = [j, (j + 1) % n, (j + 2) % n].iter().map(|k| doc_by_id(&ids[*k])).collect();
    let docs = match docs {
        Some(d) => d,
        None => return out.fail("setup", &id, input, "driver: unknown document id"),
    };
    let (cls, what) = match orch::g(|| run_state(state, &docs[1], &docs[0], &docs[2])) {
        Ok(Ok(bad)) if bad.is_empty() => return,
        Ok(Ok(bad)) => (state.to_string(), format!("{} || d2 = {}", bad.join(" || "), clip(&Value::Object(docs[0].clone())))),
        Ok(Err(e)) => ("setup".to_string(), format!("the prior state could not be built: {} (d1 = {})", e, clip(&Value::Object(docs[1].clone())))),
        Err(p) => ("panic".to_string(), format!("panic: {}", p.lines().next().unwrap_or(""))),
    };
    eprintln!("[fidelity] FAIL {} | {}", id, what);
    out.fail(&cls, &id, input, &what);
}

fn work(thorough: bool, seed: u64, out: &Out) {
    let ids = doc_ids(seed, if thorough { 1500 } else { 40 });
    let limit = if thorough { Duration::from_secs(5) } else { Duration::from_secs(2) };
    if std::env::var_os("MELDA_VERIF_FIDELITY_DUMP").is_some() {
        // inspection aid: the documents of this run on stderr
        for id in &ids {
            eprintln!("[fidelity] DOC {} {}", id, Value::Object(doc_by_id(id).unwrap_or_default()));
        }
    }
    // commit while the array is in conflict: in threads of their own, collected at the end
    let mut parked = vec![];
    // (committing while an array is in conflict no longer hangs: `arrayconflict-commit` is an ordinary state now)
    for j in 0..0usize {
        let (tx, rx) = channel();
        let (d1, d2) = (doc_by_id(&ids[j + 1]).unwrap_or_default(), doc_by_id(&ids[j]).unwrap_or_default());
        let _ = std::thread::Builder::new().stack_size(8 << 20).spawn(move || {
            let r = orch::g(|| -> Result<Vec<String>, String> {
                let mut bad = vec![];
                let (a, _ad) = array_conflict(&d1)?;
                let target = array_conflict_target(&d2);
                upd(&a, &target, "update(d2 + cx)")?;
                commit(&a, "commit with the array in conflict")?;
                once_each(&a, &target, "array conflict, after update + commit", &mut bad);
                Ok(bad)
            });
            let _ = tx.send(r);
        });
        parked.push((ids[j].clone(), rx));
    }
    let started = std::time::Instant::now();
    for state in STATES {
        for j in 0..ids.len() {
            one_case(state, &ids, j, out);
        }
    }
    // colliding path digests: recorded only
    let mut notes = vec![];
    for (k, d) in collide_docs().iter().enumerate() {
        let id = format!("collide:c{}", k);
        out.begin(&id, json!({"state": "collide", "doc": format!("c{}", k)}));
        out.case(&id, false);
        let d2 = d.clone();
        let r = orch::g(move || -> Result<String, String> {
            let m = orch::open(&orch::mem())?;
            upd(&m, &d2, "update")?;
            let got = read_doc(&m)?;
            Ok(if got == with_ids(&d2) { "read equals the submitted document".to_string() } else { format!("read = {}", clip(&got)) })
        });
        notes.push(format!("c{} {} -> {}", k, clip(&Value::Object(d.clone())), match r {
            Ok(Ok(s)) => s,
            Ok(Err(e)) => e,
            Err(p) => format!("panic: {}", p.lines().next().unwrap_or("")),
        }));
    }
    out.note(&format!("collide (note only): {}", notes.join("; ")));
    out.begin("collecting arrayconflict-commit", json!({}));
    for (doc, rx) in parked {
        let id = format!("arrayconflict-commit:{}", doc);
        out.case(&id, true);
        let input = json!({"state": "arrayconflict-commit", "doc": doc});
        let left = limit.checked_sub(started.elapsed()).unwrap_or(Duration::from_millis(50)).max(Duration::from_millis(50));
        match rx.recv_timeout(left) {
            Ok(Ok(Ok(bad))) if bad.is_empty() => {}
            Ok(Ok(Ok(bad))) => out.fail("arrayconflict-commit", &id, input, &bad.join(" || ")),
            Ok(Ok(Err(e))) => out.fail("setup", &id, input, &e),
            Ok(Err(p)) => out.fail("panic", &id, input, &format!("panic: {}", p.lines().next().unwrap_or(""))),
            Err(_) => {
                eprintln!("[fidelity] HANG hang:{}", id);
                out.fail("hang", &format!("hang:{}", id), input, "update + commit while a flattened array is in conflict did not return within the limit — hang (another property); thread abandoned");
                out.not_exhaustive();
            }
        }
    }
}

pub fn run(thorough: bool, seed: u64) -> Report {
    let n = hand_written().len();
    let mut rep = Report::new(
        "fidelity",
        &format!(
            "{} hand-written + {} seeded documents (well-formed: string ids, no leading \"^\", no leading \"!\" for an object that is the direct value of a ♭ field, ids pairwise distinct and != \"√\", ♭ arrays hold objects only, at most one id-less object per ♭ array, no \"_id\" inside plain values, no \"#\" key; tracked nesting <= 3) x 18 states (fresh, staged, committed, history, merged, conflict [object], remove, readd, readd-empty, move, repeat, repeat-staged, same, reread: read(None) == with_ids(d2) after update, after commit, after reopen; arrayconflict: every id of the submitted document exactly once; arrayconflict-commit, move-vs-append, same-position: exactly once while the array is in conflict, exact equality after the commit that resolves it); d1 / d3 of a case are the next two documents of the list; {} arrayconflict-commit cases under a {} s limit; 3 colliding documents recorded as a note",
            n,
            if thorough { 1500 } else { 40 },
            if thorough { 4 } else { 2 },
            if thorough { 5 } else { 2 }
        ),
        "exhaustive over states x documents; one case each (prior state rebuilt, update(d2), three reads); every case non-trivial except collide:*; guarded, 10 s watchdog",
    );
    if std::env::var_os("RAYON_NUM_THREADS").is_none() {
        std::env::set_var("RAYON_NUM_THREADS", "2");
    }
    let mut classes = FailureClasses::new(2);
    orch::supervise(&mut rep, &mut classes, move |out| work(thorough, seed, out));
    classes.summary("fidelity");
    rep
}

pub fn replay(case: &Value) -> Value {
    let inp = case["input"].clone();
    let state = inp["state"].as_str().unwrap_or("").to_string();
    let want = case["case_id"].as_str().unwrap_or("").to_string();
    if state == "arrayconflict-commit" {
        let (tx, rx) = channel();
        let doc = inp["doc"].as_str().unwrap_or("h0").to_string();
        let _ = std::thread::Builder::new().stack_size(8 << 20).spawn(move || {
            let r = orch::g(|| -> Result<(), String> {
                let ids = doc_ids(0, 0);
                let j = ids.iter().position(|d| *d == doc).unwrap_or(0);
                let (d1, d2) = (doc_by_id(&ids[(j + 1) % ids.len()]).unwrap_or_default(), doc_by_id(&doc).unwrap_or_default());
                let (a, _ad) = array_conflict(&d1)?;
                upd(&a, &array_conflict_target(&d2), "update")?;
                commit(&a, "commit")
            });
            let _ = tx.send(r);
        });
        return match rx.recv_timeout(Duration::from_secs(5)) {
            Err(_) => json!({"reproduced": want.starts_with("hang:"), "outcome": "hang"}),
            Ok(r) => json!({"reproduced": !want.starts_with("hang:") && !matches!(r, Ok(Ok(()))), "outcome": format!("{:?}", r)}),
        };
    }
    let fails = orch::replay_collect(move |out| {
        let ids: Vec<String> = ["doc", "d1", "d3"].iter().filter_map(|k| inp[*k].as_str().map(|s| s.to_string())).collect();
        if ids.len() == 3 && STATES.contains(&state.as_str()) {
            one_case(&state, &ids, 0, out);
        }
    });
    match fails.iter().find(|(id, _)| *id == want || (want.starts_with("hang:") && id.starts_with("hang:"))) {
        Some((id, what)) => json!({"reproduced": true, "case_id": id, "what": what}),
        None => json!({"reproduced": false, "other_failures": fails.len()}),
    }
}
