//! C07 through the PUBLIC API (`resolve_as`, `in_conflict`, `get_winner`, `get_conflicting`, `get_value`, `read`,
//! `commit`, `meld`, `refresh`) on MemoryAdapters.
//! Property: resolving a conflict on an object in favour of one of its live leaves removes the object from the
//! conflict set and makes its visible state equal to the state at the chosen revision, including being absent from
//! the document when the chosen revision is a deletion; choosing the current winner leaves the document unchanged.
//! Once committed, the resolution propagates: every replica that receives it sees the same resolved state, and it
//! never reopens the conflict.
//!
//! Documents: {"title":"t", "a♭":{"_id":"x",...}, "b♭":{"_id":"y",...}} — update() tracks an object only below a key
//! with the flatten suffix (utils::flatten), here plain nested objects, so NO flattened array exists anywhere (a commit
//! with an array in conflict hangs on this version: another property).
//! Situation <eA>|<eB>: A commits the base; B melds A + refresh; A stages eA, B stages eB (concurrently), both commit;
//! a replica C melds B (base + B's edit only); A melds B + refresh.  Edits:
//!   u1 / u2   update x to content 1 / 2          uu   update x twice before the commit (longer history)
//!   del       delete_object("x") (the root keeps its reference)    drop  update(document without the a♭ key)
//!   y         leave x, edit y (different content on each replica)
//! Thorough adds a third concurrent replica (<eA>|<eB>|<eC>, eC in {u3, del}: up to 3 leaves) and the same situations
//! resolved on B instead of A (suffix /onB).
//! For EVERY live leaf L of x (get_winner + get_conflicting) the situation is rebuilt and `resolve_as("x", L)` called:
//!   Ok; x not in in_conflict(); get_conflicting(x) empty; visible state of x == state at L: L a deletion (digest "d" /
//!   value has "_deleted") => NO object with _id x anywhere in read(None);
//!   otherwise, if the root's value references x, the object x in read(None) == get_value(x, Some(L)) + _id (absent if
//!   the root does not reference x); everything else in read(None) unchanged; L == current winner => read(None)
//!   unchanged altogether.  Then commit: Ok(Some), read unchanged; reopen: same read, x not in conflict, same in_conflict() /
//!   winner / get_conflicting of every object as the committing replica; B melds A +
//!   refresh: B.read == A.read, x not in conflict on B; A melds B + refresh: A.read unchanged, x not in conflict
//!   again; C melds A + refresh: C.read == A.read, x not in conflict.
//! Twin leaves: ud (replica-specific update, then delete_object) and uf (replica-specific update, then the same final value):
//! the final revisions of the two replicas have equal index and digest and differ only in their parent-derived tail.
//! resolve-array:<eA>|<eB>:choose=<leaf>   list♭ = [a,b,c]; A and B submit different versions (append p / append q / move a to
//! the end / remove b / put r in front); for EVERY live leaf L of the array descriptor resolve_as(descriptor, L): not in
//! conflict; every element of a concurrent version that nobody deleted is present exactly once (before and after); L the
//! current winner => read(None) unchanged; commit; reopen; B and a replica holding base + B's edit meld the resolver: same
//! document, no conflict; melding back does not reopen it.
//! Situations without a conflict on x (choose=none): x is not reported in conflict and resolve_as(x, winner) is Err
//! and changes nothing.  guard:<name>: resolve_as with a non-leaf / unknown revision, an object not in conflict, an
//! unknown object is Err and changes neither read(None) nor the stage.
//! Every case runs guarded (panic => failure "panic: ...") in a worker thread under a 10 s watchdog (`hang:` prefix).
use super::orch::{self, Out};
use super::FailureClasses;
use crate::Report;
use melda::melda::Melda;
use serde_json::{json, Map, Value};

const F: &str = "\u{266D}";
const ROOT: &str = "\u{221A}";
const EDITS: [&str; 9] = ["u1", "u2", "uu", "del", "drop", "y", "ud", "uf", "u3"];

fn base_doc() -> Value {
    let mut m = Map::new();
    m.insert("title".into(), json!("t"));
    m.insert(format!("a{}", F), json!({"_id": "x", "v": 0}));
    m.insert(format!("b{}", F), json!({"_id": "y", "w": 0}));
    Value::Object(m)
}

/// stages edit `e` on replica number `who` (0 = A, 1 = B, 2 = third)
fn apply(m: &Melda, e: &str, who: usize) -> Result<(), String> {
    let a = format!("a{}", F);
    let b = format!("b{}", F);
    let upd = |d: &Value| orch::ge("update", || m.update(orch::obj(d.clone()))).map(|_| ());
    let mut d = base_doc();
    match e {
        "u1" => {
            d[&a] = json!({"_id": "x", "v": 1});
            upd(&d)
        }
        "u2" => {
            d[&a] = json!({"_id": "x", "v": 2, "s": "two}"});
            upd(&d)
        }
        "u3" => {
            d[&a] = json!({"_id": "x", "v": 5, "t": [1, 2.5]});
            upd(&d)
        }
        "uu" => {
            d[&a] = json!({"_id": "x", "v": 3});
            upd(&d)?;
            d[&a] = json!({"_id": "x", "v": 4});
            upd(&d)
        }
        "del" => orch::ge("delete_object", || m.delete_object("x")).map(|_| ()),
        // twin leaves: a replica-specific intermediate edit, then the SAME final step on every replica — the final
        // revisions have equal index and digest and differ only in the parent-derived tail
        "ud" => {
            d[&a] = json!({"_id": "x", "v": 10 + who});
            upd(&d)?;
            orch::ge("delete_object", || m.delete_object("x")).map(|_| ())
        }
        "uf" => {
            d[&a] = json!({"_id": "x", "v": 20 + who});
            upd(&d)?;
            d[&a] = json!({"_id": "x", "v": "final"});
            upd(&d)
        }
        "drop" => {
            d.as_object_mut().unwrap().remove(&a);
            upd(&d)
        }
        _ => {
            d[&b] = json!({"_id": "y", "w": who + 1});
            upd(&d)
        }
    }
}

fn touches_x(e: &str) -> bool {
    e != "y"
}

fn same_revision(e1: &str, e2: &str) -> bool {
    if matches!(e1, "ud" | "uf") || matches!(e2, "ud" | "uf") {
        return false; // different parents: never the same revision, even for the same edit name
    }
    e1 == e2 || (matches!(e1, "del" | "drop") && matches!(e2, "del" | "drop"))
}

fn is_deletion_rev(rev: &str) -> bool {
    rev.split_once('-').map(|(_, d)| d.split('_').next() == Some("d")).unwrap_or(false)
}

/// all objects with "_id" == id anywhere in the document
fn find_obj(v: &Value, id: &str, out: &mut Vec<Value>) {
    match v {
        Value::Object(o) => {
            if o.get("_id").and_then(|x| x.as_str()) == Some(id) {
                out.push(v.clone());
            }
            for x in o.values() {
                find_obj(x, id, out);
            }
        }
        Value::Array(a) => a.iter().for_each(|x| find_obj(x, id, out)),
        _ => {}
    }
}

/// the document with every object "_id" == id replaced by null
fn strip(v: &Value, id: &str) -> Value {
    match v {
        Value::Object(o) => {
            if o.get("_id").and_then(|x| x.as_str()) == Some(id) {
                return Value::Null;
            }
            Value::Object(o.iter().map(|(k, x)| (k.clone(), strip(x, id))).collect())
        }
        Value::Array(a) => Value::Array(a.iter().map(|x| strip(x, id)).collect()),
        _ => v.clone(),
    }
}

fn read(m: &Melda) -> Value {
    match orch::g(|| m.read(None)) {
        Ok(Ok(v)) => Value::Object(v),
        Ok(Err(e)) => json!({"read_err": e.to_string()}),
        Err(p) => json!({"read_panic": p.lines().next().unwrap_or("")}),
    }
}

fn in_conflict(m: &Melda, id: &str) -> Result<bool, String> {
    orch::g(|| m.in_conflict()).map(|s| s.contains(id)).map_err(|p| format!("panic in in_conflict: {}", p))
}

fn sync(dst: &mut Melda, src: &Melda, what: &str) -> Result<(), String> {
    orch::ge(&format!("{}: meld", what), || dst.meld(src))?;
    orch::ge(&format!("{}: refresh", what), || dst.refresh())
}

fn commit_some(m: &Melda, what: &str) -> Result<(), String> {
    match orch::ge(&format!("{}: commit", what), || m.commit(None))? {
        Some(_) => Ok(()),
        None => Err(format!("{}: commit returned Ok(None) although an edit was staged", what)),
    }
}

struct Sit {
    /// the replica that resolves
    r: Melda,
    r_ad: orch::Dyn,
    /// the other concurrent editors (they have not seen the resolver's edit)
    peers: Vec<Melda>,
    /// holds only the base and the first peer's concurrent edit
    c: Melda,
}

/// edits[0] is A's, edits[1] B's, edits[2] (optional) the third replica's; `on_b`: B resolves instead of A
fn build(edits: &[&str], on_b: bool) -> Result<Sit, String> {
    let n = edits.len();
    let ads: Vec<orch::Dyn> = (0..n).map(|_| orch::mem()).collect();
    let mut reps: Vec<Melda> = vec![];
    for ad in &ads {
        reps.push(orch::open(ad)?);
    }
    orch::ge("A.update(base)", || reps[0].update(orch::obj(base_doc())))?;
    commit_some(&reps[0], "base")?;
    for i in 1..n {
        let (x, y) = reps.split_at_mut(i);
        sync(&mut y[0], &x[0], "peer takes the base")?;
    }
    for i in 0..n {
        apply(&reps[i], edits[i], i)?;
        commit_some(&reps[i], &format!("concurrent edit {} of replica {}", edits[i], i))?;
    }
    let ri = if on_b { 1 } else { 0 };
    let mut r = reps.remove(ri);
    let r_ad = ads[ri].clone();
    let peers = reps;
    let mut c = orch::open(&orch::mem())?;
    sync(&mut c, &peers[0], "C takes the base and the peer's edit")?;
    for p in &peers {
        sync(&mut r, p, "resolver melds a peer")?;
    }
    Ok(Sit { r, r_ad, peers, c })
}

fn leaves_of(m: &Melda) -> Result<(String, Vec<String>), String> {
    let w = orch::ge("get_winner(x)", || m.get_winner("x"))?;
    let o = orch::ge("get_conflicting(x)", || m.get_conflicting("x"))?;
    Ok((w, o.into_iter().collect()))
}

fn choice_name(i: usize, n_others: usize) -> String {
    match (i, n_others) {
        (0, _) => "winner".to_string(),
        (_, 1) => "other".to_string(),
        (i, _) => format!("other{}", i),
    }
}

/// one case: the situation rebuilt, leaf number `choice` (0 = winner) chosen; Ok(failed checks)
fn resolve_case(edits: &[&str], on_b: bool, choice: usize) -> Result<Vec<String>, String> {
    let mut bad: Vec<String> = vec![];
    let Sit { r, r_ad, mut peers, mut c } = build(edits, on_b)?;
    let mut r = r;
    let (w, others) = leaves_of(&r)?;
    let l = if choice == 0 { w.clone() } else { others.get(choice - 1).cloned().ok_or("driver: leaf index out of range")? };
    let at_l = orch::ge("get_value(x, Some(L))", || r.get_value("x", Some(&l)))?;
    let deletion = is_deletion_rev(&l) || at_l.contains_key("_deleted");
    let before = read(&r);
    // step 2
    match orch::g(|| r.resolve_as("x", &l)) {
        Ok(Ok(_)) => {}
        Ok(Err(e)) => return Ok(vec![format!("resolve_as(x, {}) is Err({})", l, e)]),
        Err(p) => return Ok(vec![format!("panic: resolve_as(x, {}): {}", l, p.lines().next().unwrap_or(""))]),
    }
    if in_conflict(&r, "x")? {
        bad.push("x is still in in_conflict() after resolve_as".into());
    }
    match orch::g(|| r.get_conflicting("x")) {
        Ok(Ok(s)) if s.is_empty() => {}
        Ok(Ok(s)) => bad.push(format!("get_conflicting(x) after resolve_as = {:?}", s)),
        Ok(Err(e)) => bad.push(format!("get_conflicting(x) after resolve_as is Err({})", e)),
        Err(p) => bad.push(format!("panic: get_conflicting(x): {}", p.lines().next().unwrap_or(""))),
    }
    let after = read(&r);
    let mut seen = vec![];
    find_obj(&after, "x", &mut seen);
    let new_winner = orch::ge("get_winner(x)", || r.get_winner("x")).unwrap_or_else(|e| e);
    if deletion {
        // (a live new winner alone is not a violation of the property text: the document is what counts)
        if !seen.is_empty() {
            bad.push(format!(
                "chosen revision {} is a deletion, but read(None) still contains x as {} (new winner {}{})",
                l,
                seen[0],
                new_winner,
                if is_deletion_rev(&new_winner) { "" } else { ", a live revision" }
            ));
        }
    } else {
        let root_refs_x = orch::g(|| r.get_value(ROOT, None)).ok().and_then(|v| v.ok()).map(|v| v.values().any(|x| x.as_str() == Some("x"))).unwrap_or(false);
        if root_refs_x {
            let mut want = at_l.clone();
            want.insert("_id".into(), json!("x"));
            if seen.len() != 1 || seen[0] != Value::Object(want.clone()) {
                bad.push(format!("x in read(None) is {:?} but its value at the chosen revision {} is {}", seen, l, Value::Object(want)));
            }
        } else if !seen.is_empty() {
            bad.push(format!("the root does not reference x, but read(None) contains {}", seen[0]));
        }
        match orch::g(|| r.get_value("x", None)) {
            Ok(Ok(v)) if v == at_l => {}
            other => bad.push(format!("get_value(x, None) after resolve_as is {} but the value at {} is {}", orch::res(other.map(|r| r.map(Value::Object))), l, Value::Object(at_l.clone()))),
        }
    }
    if strip(&before, "x") != strip(&after, "x") {
        bad.push(format!("something other than x changed in read(None): {} -> {}", before, after));
    }
    if choice == 0 && before != after {
        bad.push(format!("the current winner {} was chosen, but read(None) changed: {} -> {}", l, before, after));
    }
    // step 3
    match orch::g(|| r.commit(None)) {
        Ok(Ok(Some(_))) => {}
        Ok(Ok(None)) => bad.push("commit after resolve_as returned Ok(None): nothing was staged".into()),
        Ok(Err(e)) => return Ok({ bad.push(format!("commit after resolve_as is Err({})", e)); bad }),
        Err(p) => return Ok({ bad.push(format!("panic: commit after resolve_as: {}", p.lines().next().unwrap_or(""))); bad }),
    }
    let committed = read(&r);
    if committed != after {
        bad.push(format!("read(None) changed by the commit: {} -> {}", after, committed));
    }
    match orch::open(&r_ad) {
        Err(e) => bad.push(format!("reopen after the commit: {}", e)),
        Ok(f) => {
            if read(&f) != committed {
                bad.push(format!("reopened replica reads {} but the resolver {}", read(&f), committed));
            }
            if in_conflict(&f, "x")? {
                bad.push("x is in conflict on the reopened replica".into());
            }
            // the whole conflict picture: conflict set, winner and conflicting revisions of EVERY object
            let picture = |m: &Melda| -> Value {
                let objs = orch::g(|| m.get_all_objects()).unwrap_or_default();
                let per: Vec<Value> = objs
                    .iter()
                    .map(|o| json!({"object": o, "winner": orch::res(orch::g(|| m.get_winner(o))), "conflicting": orch::res(orch::g(|| m.get_conflicting(o).map(|s| s.into_iter().collect::<Vec<String>>())))}))
                    .collect();
                json!({"in_conflict": orch::g(|| m.in_conflict()).unwrap_or_default().into_iter().collect::<Vec<String>>(), "objects": per})
            };
            let (pr, pf) = (picture(&r), picture(&f));
            if pr != pf {
                bad.push(format!("conflict picture after the committed resolution: reopened replica {} but the committing replica {}", pf, pr));
            }
        }
    }
    for (i, p) in peers.iter_mut().enumerate() {
        sync(p, &r, "peer melds the resolver")?;
        if read(p) != committed {
            bad.push(format!("peer {} after meld+refresh reads {} but the resolver {}", i, read(p), committed));
        }
        if in_conflict(p, "x")? {
            bad.push(format!("x is in conflict on peer {} after it received the resolution", i));
        }
    }
    for p in peers.iter() {
        sync(&mut r, p, "resolver melds the peer back")?;
    }
    if read(&r) != committed {
        bad.push(format!("resolver's read(None) changed after melding the peers back: {} -> {}", committed, read(&r)));
    }
    if in_conflict(&r, "x")? {
        bad.push("the conflict on x REOPENED on the resolver after melding the peers back".into());
    }
    sync(&mut c, &r, "C melds the resolver")?;
    if read(&c) != committed {
        bad.push(format!("C (base + the peer's edit) after meld+refresh reads {} but the resolver {}", read(&c), committed));
    }
    if in_conflict(&c, "x")? {
        bad.push("x is in conflict on C after it received the resolution".into());
    }
    Ok(bad)
}

/// situations without a conflict on x
fn none_case(edits: &[&str], on_b: bool) -> Result<Vec<String>, String> {
    let mut bad = vec![];
    let sit = build(edits, on_b)?;
    let r = sit.r;
    if in_conflict(&r, "x")? {
        bad.push("x is reported in conflict although at most one distinct concurrent revision of x exists".into());
        return Ok(bad);
    }
    let (w, others) = leaves_of(&r)?;
    if !others.is_empty() {
        bad.push(format!("get_conflicting(x) = {:?} without a conflict", others));
    }
    let before = read(&r);
    match orch::g(|| r.resolve_as("x", &w)) {
        Ok(Err(_)) => {}
        Ok(Ok(x)) => bad.push(format!("resolve_as(x, winner) without a conflict returned Ok({})", x)),
        Err(p) => bad.push(format!("panic: resolve_as(x, winner) without a conflict: {}", p.lines().next().unwrap_or(""))),
    }
    if read(&r) != before {
        bad.push("read(None) changed by a refused resolve_as".into());
    }
    if orch::g(|| r.has_staging()).unwrap_or(true) {
        bad.push("has_staging() is true after a refused resolve_as".into());
    }
    Ok(bad)
}

const GUARDS: [&str; 5] = ["non-leaf", "unknown-revision", "object-not-in-conflict", "unknown-object", "no-conflict-at-all"];

fn guard_case(name: &str) -> Result<Vec<String>, String> {
    let mut bad = vec![];
    let r = if name == "no-conflict-at-all" {
        let m = orch::open(&orch::mem())?;
        orch::ge("update(base)", || m.update(orch::obj(base_doc())))?;
        commit_some(&m, "base")?;
        m
    } else {
        build(&["u1", "u2"], false)?.r
    };
    let (w, _) = leaves_of(&r)?;
    let (obj, rev): (&str, String) = match name {
        "non-leaf" => ("x", orch::ge("get_parent_revision", || r.get_parent_revision("x", &w))?.ok_or("the winner of x has no parent")?),
        "unknown-revision" => ("x", "7-0123456789abcdef0123456789abcdef0123456789abcdef0123456789abcdef_abcdef0".to_string()),
        "object-not-in-conflict" => ("y", orch::ge("get_winner(y)", || r.get_winner("y"))?),
        "unknown-object" => ("nope", w.clone()),
        _ => ("x", w.clone()),
    };
    let before = (read(&r), orch::g(|| r.in_conflict()).ok(), orch::g(|| r.has_staging()).ok());
    if before.2 != Some(false) {
        return Err("driver: the replica has staged changes before the guard call".into());
    }
    match orch::g(|| r.resolve_as(obj, &rev)) {
        Ok(Err(e)) => {
            if name == "object-not-in-conflict" || name == "no-conflict-at-all" {
                if e.to_string() != "not_in_conflict" {
                    bad.push(format!("resolve_as({}, {}) is Err({}), expected not_in_conflict", obj, rev, e));
                }
            }
        }
        Ok(Ok(x)) => bad.push(format!("resolve_as({}, {}) returned Ok({})", obj, rev, x)),
        Err(p) => bad.push(format!("panic: resolve_as({}, {}): {}", obj, rev, p.lines().next().unwrap_or(""))),
    }
    let after = (read(&r), orch::g(|| r.in_conflict()).ok(), orch::g(|| r.has_staging()).ok());
    if after.0 != before.0 {
        bad.push(format!("read(None) changed: {} -> {}", before.0, after.0));
    }
    if after.1 != before.1 {
        bad.push(format!("in_conflict() changed: {:?} -> {:?}", before.1, after.1));
    }
    if after.2 != Some(false) {
        bad.push("has_staging() is true after the refused resolve_as".into());
    }
    Ok(bad)
}

// ------------------------------------------------------------------------------------------ array descriptors

const ARR: &str = "^\u{221A}@list\u{266D}";
const ARRAY_EDITS: [&str; 5] = ["app-p", "app-q", "move", "remove", "front-r"];

fn list_doc(ids: &[&str]) -> Map<String, Value> {
    let mut m = Map::new();
    m.insert("title".into(), json!("t"));
    m.insert(format!("list{}", F), Value::Array(ids.iter().map(|i| json!({"_id": i, "v": i})).collect()));
    m
}

fn array_version(e: &str) -> Vec<&'static str> {
    match e {
        "app-p" => vec!["a", "b", "c", "p"],
        "app-q" => vec!["a", "b", "c", "q"],
        "move" => vec!["b", "c", "a"],
        "remove" => vec!["a", "c"],
        _ => vec!["r", "a", "b", "c"],
    }
}

fn list_of(m: &Melda) -> Result<Vec<String>, String> {
    let d = orch::ge("read", || m.read(None))?;
    Ok(d.get(&format!("list{}", F)).and_then(|v| v.as_array()).map(|a| a.iter().filter_map(|x| x.get("_id").and_then(|i| i.as_str()).map(|s| s.to_string())).collect()).unwrap_or_default())
}

/// A (resolver) and B edit list♭ = [a,b,c] concurrently; A melds B; resolve_as(array descriptor, leaf number `choice`)
fn array_case(ea: &str, eb: &str, choice: Option<usize>) -> Result<(Vec<String>, usize), String> {
    let mut bad = vec![];
    let ad = orch::mem();
    let mut a = orch::open(&ad)?;
    let mut b = orch::open(&orch::mem())?;
    orch::ge("A.update(base)", || a.update(list_doc(&["a", "b", "c"])))?;
    commit_some(&a, "base")?;
    sync(&mut b, &a, "B takes the base")?;
    let (va, vb) = (array_version(ea), array_version(eb));
    orch::ge("A.update", || a.update(list_doc(&va)))?;
    commit_some(&a, "A's edit")?;
    orch::ge("B.update", || b.update(list_doc(&vb)))?;
    commit_some(&b, "B's edit")?;
    let mut c = orch::open(&orch::mem())?;
    sync(&mut c, &b, "C takes the base and B's edit")?;
    sync(&mut a, &b, "A melds B")?;
    if !in_conflict(&a, ARR)? {
        return Err(format!("driver: the array is not in conflict: {:?}", orch::g(|| a.in_conflict())));
    }
    let w = orch::ge("get_winner(array)", || a.get_winner(ARR))?;
    let others: Vec<String> = orch::ge("get_conflicting(array)", || a.get_conflicting(ARR))?.into_iter().collect();
    let choice = match choice {
        None => return Ok((vec![], others.len() + 1)),
        Some(c) => c,
    };
    let l = if choice == 0 { w.clone() } else { others.get(choice - 1).cloned().ok_or("driver: leaf index out of range")? };
    let before = read(&a);
    let merged = list_of(&a)?;
    // every element of a concurrent version that nobody deleted, exactly once
    let complete = |got: &[String], ctx: &str, bad: &mut Vec<String>| {
        let base = ["a", "b", "c"];
        let mut seen = std::collections::BTreeSet::new();
        for x in got {
            if !seen.insert(x.clone()) {
                bad.push(format!("{}: element {} appears twice in {:?}", ctx, x, got));
            }
        }
        for x in va.iter().chain(vb.iter()) {
            let deleted = base.contains(x) && (!va.contains(x) || !vb.contains(x));
            if !deleted && !seen.contains(*x) {
                bad.push(format!("{}: element {} of a concurrent version (deleted by nobody) is missing from {:?} (A {:?}, B {:?})", ctx, x, got, va, vb));
            }
            if deleted && seen.contains(*x) {
                bad.push(format!("{}: element {} was deleted by one replica but is in {:?}", ctx, x, got));
            }
        }
    };
    complete(&merged, "merged read before the resolution", &mut bad);
    match orch::g(|| a.resolve_as(ARR, &l)) {
        Ok(Ok(_)) => {}
        Ok(Err(e)) => return Ok((vec![format!("resolve_as(array, {}) is Err({})", l, e)], 0)),
        Err(p) => return Ok((vec![format!("panic: resolve_as(array, {}): {}", l, p.lines().next().unwrap_or(""))], 0)),
    }
    if in_conflict(&a, ARR)? {
        bad.push("the array is still in in_conflict() after resolve_as".into());
    }
    match orch::g(|| a.get_conflicting(ARR)) {
        Ok(Ok(s)) if s.is_empty() => {}
        other => bad.push(format!("get_conflicting(array) after resolve_as is {:?}", other.map(|r| r.map_err(|e| e.to_string())))),
    }
    let after = read(&a);
    let got = list_of(&a)?;
    complete(&got, "after resolve_as", &mut bad);
    if choice == 0 && after != before {
        bad.push(format!("the current winner {} was chosen, but read(None) changed: {} -> {}", l, before, after));
    }
    match orch::g(|| a.commit(None)) {
        Ok(Ok(Some(_))) => {}
        other => {
            bad.push(format!("commit after resolve_as is {:?}", other.map(|r| r.map(|x| x.is_some()).map_err(|e| e.to_string()))));
            return Ok((bad, 0));
        }
    }
    let committed = read(&a);
    if committed != after {
        bad.push(format!("read(None) changed by the commit: {} -> {}", after, committed));
    }
    match orch::open(&ad) {
        Err(e) => bad.push(format!("reopen after the commit: {}", e)),
        Ok(f) => {
            if read(&f) != committed {
                bad.push(format!("reopened replica reads {} but the resolver {}", read(&f), committed));
            }
            if in_conflict(&f, ARR)? {
                bad.push("the array is in conflict on the reopened replica".into());
            }
        }
    }
    for (who, p) in [("peer B", &mut b), ("C (base + B's edit)", &mut c)] {
        sync(p, &a, "a receiver melds the resolver")?;
        if read(p) != committed {
            bad.push(format!("{} after meld+refresh reads {} but the resolver {}", who, read(p), committed));
        }
        if in_conflict(p, ARR)? {
            bad.push(format!("the array is in conflict on {} after it received the resolution", who));
        }
    }
    sync(&mut a, &b, "the resolver melds the peer back")?;
    if read(&a) != committed {
        bad.push(format!("the resolver's read(None) changed after melding the peer back: {} -> {}", committed, read(&a)));
    }
    if in_conflict(&a, ARR)? {
        bad.push("the conflict on the array REOPENED on the resolver after melding the peer back".into());
    }
    Ok((bad, 0))
}

fn array_situation(ea: &'static str, eb: &'static str, out: &Out) {
    let name = format!("{}|{}", ea, eb);
    let input = |choice: Value| json!({"array": [ea, eb], "choice": choice});
    out.begin(&format!("resolve-array:{}", name), input(json!("enumerate")));
    let n = match orch::g(|| array_case(ea, eb, None)) {
        Ok(Ok((_, n))) => n,
        other => {
            let id = format!("resolve-array:{}:choose=none", name);
            out.case(&id, true);
            let r = match other {
                Ok(Err(e)) => Ok(Err(e)),
                Err(p) => Err(p),
                _ => Ok(Err("driver".to_string())),
            };
            return book(out, &id, input(json!("none")), "setup", r);
        }
    };
    for choice in 0..n {
        let id = format!("resolve-array:{}:choose={}", name, choice_name(choice, n - 1));
        out.begin(&id, input(json!(choice)));
        out.case(&id, true);
        book(out, &id, input(json!(choice)), "resolve-array", orch::g(|| array_case(ea, eb, Some(choice)).map(|(bad, _)| bad)));
    }
}

fn array_pairs() -> Vec<(&'static str, &'static str)> {
    let mut v = vec![];
    for a in ARRAY_EDITS {
        for b in ARRAY_EDITS {
            if a != b {
                v.push((a, b));
            }
        }
    }
    v
}

fn sit_name(edits: &[&str], on_b: bool) -> String {
    format!("{}{}", edits.join("|"), if on_b { "/onB" } else { "" })
}

fn book(out: &Out, id: &str, input: Value, class: &str, r: Result<Result<Vec<String>, String>, String>) {
    let (cls, what) = match r {
        Ok(Ok(bad)) if bad.is_empty() => return,
        Ok(Ok(bad)) => (class.to_string(), bad.join(" || ")),
        Ok(Err(e)) => ("setup".to_string(), format!("the scenario could not be built / driven: {}", e)),
        Err(p) => ("panic".to_string(), format!("panic: {}", p.lines().next().unwrap_or(""))),
    };
    eprintln!("[resolve_api] FAIL {} | {}", id, what);
    out.fail(&cls, id, input, &what);
}

/// all cases of one situation
fn situation(edits: &[&str], on_b: bool, out: &Out) {
    let name = sit_name(edits, on_b);
    let input = |choice: Value| json!({"edits": edits, "on_b": on_b, "choice": choice});
    out.begin(&format!("resolve:{}", name), input(json!("enumerate")));
    let distinct: Vec<&str> = edits.iter().filter(|e| touches_x(e)).fold(vec![], |mut acc, e| {
        if !acc.iter().any(|a| same_revision(a, e)) {
            acc.push(*e);
        }
        acc
    });
    let expect_conflict = distinct.len() > 1;
    // which leaves are there?
    let probe = orch::g(|| -> Result<(bool, String, Vec<String>), String> {
        let s = build(edits, on_b)?;
        let (w, o) = leaves_of(&s.r)?;
        Ok((in_conflict(&s.r, "x")?, w, o))
    });
    let (conflict, _w, others) = match probe {
        Ok(Ok(x)) => x,
        Ok(Err(e)) => {
            let id = format!("resolve:{}:choose=none", name);
            out.case(&id, true);
            return book(out, &id, input(json!("none")), "setup", Ok(Err(e)));
        }
        Err(p) => {
            let id = format!("resolve:{}:choose=none", name);
            out.case(&id, true);
            return book(out, &id, input(json!("none")), "panic", Err(p));
        }
    };
    if conflict != expect_conflict || (conflict && others.len() + 1 != distinct.len()) {
        let id = format!("resolve:{}:choose=none", name);
        out.case(&id, true);
        let msg = format!("in_conflict() reports x: {}, other leaves {:?}; expected {} distinct concurrent revisions of x ({:?})", conflict, others, distinct.len(), distinct);
        return book(out, &id, input(json!("none")), "situation", Ok(Ok(vec![msg])));
    }
    if !conflict {
        let id = format!("resolve:{}:choose=none", name);
        out.begin(&id, input(json!("none")));
        out.case(&id, false);
        return book(out, &id, input(json!("none")), "no-conflict", orch::g(|| none_case(edits, on_b)));
    }
    for choice in 0..=others.len() {
        let cname = choice_name(choice, others.len());
        let id = format!("resolve:{}:choose={}", name, cname);
        out.begin(&id, input(json!(choice)));
        out.case(&id, true);
        let r = orch::g(|| resolve_case(edits, on_b, choice));
        let class = match &r {
            Ok(Ok(bad)) if bad.iter().any(|b| b.contains("is a deletion")) => "resolve-to-deletion",
            _ => "resolve",
        };
        book(out, &id, input(json!(choice)), class, r);
    }
}

fn situations(thorough: bool) -> Vec<(Vec<&'static str>, bool)> {
    let mut out = vec![];
    let two = &EDITS[..6];
    for a in two {
        for b in two {
            out.push((vec![*a, *b], false));
        }
    }
    // twin leaves
    let twins: Vec<(&'static str, &'static str)> = if thorough {
        EDITS[..8].iter().flat_map(|a| EDITS[..8].iter().map(move |b| (*a, *b))).filter(|(a, b)| matches!(*a, "ud" | "uf") || matches!(*b, "ud" | "uf")).collect()
    } else {
        vec![("ud", "ud"), ("uf", "uf"), ("ud", "uf"), ("uf", "ud"), ("ud", "u1"), ("u1", "uf"), ("del", "ud")]
    };
    for (a, b) in twins {
        out.push((vec![a, b], false));
    }
    if thorough {
        out.push((vec!["ud", "ud"], true));
        out.push((vec!["uf", "uf"], true));
        out.push((vec!["ud", "ud", "del"], false));
        out.push((vec!["uf", "uf", "u3"], false));
        for a in two {
            for b in two {
                out.push((vec![*a, *b], true));
            }
        }
        for a in &EDITS[..5] {
            for b in &EDITS[..5] {
                for c in ["u3", "del"] {
                    out.push((vec![*a, *b, c], false));
                }
            }
        }
    }
    out
}

fn work(thorough: bool, out: &Out) {
    for (edits, on_b) in situations(thorough) {
        situation(&edits, on_b, out);
    }
    for (a, b) in array_pairs() {
        array_situation(a, b, out);
    }
    for gname in GUARDS {
        let id = format!("guard:{}", gname);
        out.begin(&id, json!({ "guard": gname }));
        out.case(&id, true);
        book(out, &id, json!({ "guard": gname }), "guard", orch::g(|| guard_case(gname)));
    }
}

pub fn run(thorough: bool, _seed: u64) -> Report {
    let mut rep = Report::new(
        "resolve_api",
        if thorough {
            "situations <eA>|<eB> for every pair over {u1, u2, uu (two staged updates), del (delete_object), drop (update without x), y (edit y only)} (36), every pair involving the twin-leaf edits ud / uf (28), array descriptors: the 20 ordered pairs of different versions out of {append p, append q, move, remove, front r} with every live leaf, the same 36 resolved on B instead of A, and <eA>|<eB>|<eC> over {u1,u2,uu,del,drop}^2 x {u3, del} (50, up to 3 leaves); per situation with a conflict on x one case per live leaf (winner + every get_conflicting entry), otherwise one choose=none case; 5 guard cases"
        } else {
            "situations <eA>|<eB> for every pair over {u1, u2, uu (two staged updates), del (delete_object), drop (update without x), y (edit y only)} (36) plus 7 twin-leaf situations with ud / uf (update then delete / update then a common final value), resolved on A; array descriptors: the 20 ordered pairs of different versions out of {append p, append q, move, remove, front r}, every live leaf; per situation with a conflict on x one case per live leaf (winner + the get_conflicting entry), otherwise one choose=none case; 5 guard cases"
        },
        "exhaustive over situations x live leaves; each case rebuilds the situation and runs resolve_as, commit, reopen, meld to the peer(s), meld back, meld to a replica holding base + the peer's edit; non-trivial = a conflict on x exists (or guard case); every case guarded, 10 s watchdog",
    );
    if std::env::var_os("RAYON_NUM_THREADS").is_none() {
        std::env::set_var("RAYON_NUM_THREADS", "2");
    }
    let mut classes = FailureClasses::new(2);
    orch::supervise(&mut rep, &mut classes, move |out| work(thorough, out));
    classes.summary("resolve_api");
    rep
}

pub fn replay(case: &Value) -> Value {
    let inp = case["input"].clone();
    let fails = orch::replay_collect(move |out| {
        if let Some(gname) = inp["guard"].as_str().and_then(|g| GUARDS.iter().find(|x| **x == g)) {
            let id = format!("guard:{}", gname);
            book(out, &id, json!({ "guard": gname }), "guard", orch::g(|| guard_case(gname)));
            return;
        }
        if let Some(pair) = inp["array"].as_array() {
            let find = |v: &Value| v.as_str().and_then(|e| ARRAY_EDITS.iter().find(|x| **x == e).copied());
            if let (Some(a), Some(b)) = (pair.first().and_then(find), pair.get(1).and_then(find)) {
                array_situation(a, b, out);
            }
            return;
        }
        let edits: Option<Vec<&'static str>> = inp["edits"].as_array().and_then(|a| a.iter().map(|e| e.as_str().and_then(|e| EDITS.iter().find(|x| **x == e).copied())).collect());
        if let Some(edits) = edits {
            if edits.len() >= 2 {
                situation(&edits, inp["on_b"].as_bool().unwrap_or(false), out);
            }
        }
    });
    // all cases share few prefixes: insist on the exact case id (the whole situation is re-run)
    let want = case["case_id"].as_str().unwrap_or("");
    match fails.iter().find(|(id, _)| id == want || (want.starts_with("hang:") && id.starts_with("hang:"))) {
        Some((id, what)) => json!({"reproduced": true, "case_id": id, "what": what}),
        None => json!({"reproduced": false, "other_failures": fails.len()}),
    }
}
