//! C08 through the PUBLIC API on MemoryAdapters.
//! Property: every public operation returns, with a value or an error, in every state reachable through the public
//! API on well-formed input.  In particular committing while flattened arrays or objects are in conflict, refreshing,
//! reading, resolving and discarding staged changes never block forever and never abort the calling thread.
//!
//! Case = (situation, operation): the situation is rebuilt in a thread of its own, ONE public operation is run
//! (guarded), then — if it returned — read(None) as a second step.  Outcomes: returned Ok / returned Err (both fine),
//! panicked => failure `panic:<case>`, no return within the limit => failure `hang:<case>` (here a hang IS a failure of
//! the property; the prefix is kept so that other checks can go on ignoring it).
//!
//! Situations (documents: title, objects o1/o2 under a♭/b♭, array list♭, static array tags♭; the builders S1..S6s are
//! copies of those of the `maintenance` oracle):
//!   S1 staged only; S2c / S2 three commits / + staged; S3 / S3s melded but not refreshed / + staged; S4 / S4s OBJECT
//!   conflict / + staged; S5a / S5as ARRAY conflict append|append / + staged; S5b / S5bs reverse|remove-first / + staged;
//!   S6 / S6s like S2c / S2 with both LRU caches capped at one entry;
//!   S7 / S7s   object conflict with THREE leaves (update | update | delete on three replicas) / + staged
//!   S8 / S8s   array conflict AND object conflict together / + staged
//!   S9 / S9s   array conflict where A removed the array's key from the document and B appended to it / + staged
//!   S10        S4 after resolve_as(o1, winner), before the commit
//!   S11 / S11s S2c time-travelled to its first head with reload_until / + a staged update_object
//!   S12 / S12s a replica opened on storage that holds three blocks, the pack of the third one missing (files copied
//!              with read_object / write_object) / + staged
//!   S13 / S13s reference cycle: A moves y under x (x.child♭ = y), B moves x under y, A melds B: x references y and y
//!              references x / + staged.  These cases run in a CHILD PROCESS on a thread with a 1 MiB stack: unbounded
//!              recursion would overflow the stack and kill the process (booked as `abort:<case>`)
//!   S14 / S14s an editor and a viewer over the SAME adapter object; the editor commits twice; the viewer (opened before) is
//!              the subject / + a staged object on the viewer
//!   S15        a long linear history (1000 commits quick / 1500 thorough) written by one replica; the subject is a second
//!              replica opened on the same storage; operations new, reload, refresh, reload_until (own heads / an old
//!              head), new_until, meld from the author, read — in a CHILD PROCESS; the operation runs on a thread with a 96 KiB stack (the situation is built on a normal one); 8 s limit
//! Operations (each where its arguments can be formed): commit, commit-info, update-edit (document just read with a
//! changed title), update-reread (document just read, unchanged), create_object / update_object / delete_object on o1,
//! read, read-o1 (read(Some("o1"))), get_value-all (every object, at None and at every live leaf), get_winner-all,
//! get_conflicting-all, get_parent_revision-all, in_conflict, resolve_as:<uuid>:<k> and resolve_as+commit:<uuid>:<k> for
//! EVERY live leaf (k = 0 the winner, then get_conflicting in order) of every object in conflict (array descriptors
//! included), unstage, stage, unstage+replay_stage, snapshot (stage_full_snapshot), snapshot+commit, meld-in, meld-out,
//! refresh, reload, reload_until-own, reload_until-older, new_until-older, get_anchors, get_delta-all, new (Melda::new on
//! the same adapter), has_staging, get_all_objects.
//! Time limit per case: 2 s (quick) / 5 s (thorough).  The cases expected to be slow (anything that commits while an
//! array is in conflict) are started together up front and collected at the end; the others run in waves of 16.
use super::orch::{self, Dyn, Out, Rng};
use super::FailureClasses;
use crate::Report;
use melda::melda::{DeltaId, Melda};
use serde_json::{json, Map, Value};
use std::collections::BTreeSet;
use std::sync::mpsc::{channel, Receiver};
use std::time::{Duration, Instant};

const F: &str = "\u{266D}";

#[derive(Clone)]
struct Model {
    title: u32,
    o1: i64,
    o2: Option<i64>,
    items: Vec<(String, i64)>,
    next_item: u32,
    list: bool,
}

impl Model {
    fn new() -> Model {
        Model { title: 1, o1: 1, o2: Some(1), items: (1..=4).map(|i| (format!("k{}", i), i as i64)).collect(), next_item: 7, list: true }
    }
    fn doc(&self) -> Map<String, Value> {
        let mut m = Map::new();
        m.insert("title".into(), json!(format!("t{}", self.title)));
        m.insert(format!("a{}", F), json!({"_id": "o1", "v": self.o1}));
        if let Some(v) = self.o2 {
            m.insert(format!("b{}", F), json!({"_id": "o2", "v": v, "s": "x}y"}));
        }
        if self.list {
            m.insert(format!("list{}", F), Value::Array(self.items.iter().map(|(id, n)| json!({"_id": id, "n": n})).collect()));
        }
        m.insert(format!("tags{}", F), json!([{"_id": "t1", "n": 1}, {"_id": "t2", "n": 2}]));
        m
    }
    fn append(&mut self) {
        self.items.push((format!("k{}", self.next_item), self.next_item as i64));
        self.next_item += 1;
    }
    fn mutate(&mut self, op: usize) {
        match op {
            0 => self.o1 += 1,
            1 => self.title += 1,
            2 => self.append(),
            3 => {
                if self.items.len() < 2 {
                    self.append()
                } else {
                    self.items.remove(0);
                }
            }
            4 => {
                if self.items.len() < 2 {
                    self.append()
                } else {
                    self.items.reverse()
                }
            }
            5 => self.o2 = if self.o2.is_some() { None } else { Some(50 + self.title as i64) },
            _ => match self.items.last_mut() {
                Some(it) => it.1 += 10,
                None => self.append(),
            },
        }
    }
    fn edit(&mut self, rng: &mut Option<Rng>) {
        let before = self.doc();
        match rng {
            None => {
                self.mutate(2);
                self.mutate(0);
            }
            Some(r) => {
                let a = r.below(7);
                let b = r.below(7);
                self.mutate(a);
                self.mutate(b);
            }
        }
        if self.doc() == before {
            self.mutate(1);
        }
    }
}

struct Sit {
    m: Melda,
    ad: Dyn,
    peer: Melda,
    /// an older head set of the subject's own history
    older: Option<BTreeSet<DeltaId>>,
}

fn upd(m: &Melda, model: &Model, what: &str) -> Result<(), String> {
    orch::ge(what, || m.update(model.doc())).map(|_| ())
}

fn commit_some(m: &Melda, what: &str) -> Result<BTreeSet<DeltaId>, String> {
    orch::ge(what, || m.commit(None))?.ok_or_else(|| format!("{}: commit returned Ok(None)", what))
}

fn sync(dst: &mut Melda, src: &Melda, what: &str) -> Result<(), String> {
    orch::ge(&format!("{}: meld", what), || dst.meld(src))?;
    orch::ge(&format!("{}: refresh", what), || dst.refresh())
}

fn stranger() -> Result<Melda, String> {
    let o = orch::open(&orch::mem())?;
    let mut d = Map::new();
    d.insert("title".into(), json!("other"));
    d.insert(format!("z{}", F), json!({"_id": "z1", "v": 1}));
    orch::ge("peer.update", || o.update(d))?;
    commit_some(&o, "peer.commit")?;
    Ok(o)
}

const SITUATIONS: [&str; 29] = [
    "S1", "S2c", "S2", "S3", "S3s", "S4", "S4s", "S5a", "S5as", "S5b", "S5bs", "S6", "S6s", "S7", "S7s", "S8", "S8s", "S9", "S9s", "S10", "S11", "S11s", "S12", "S12s", "S13", "S13s", "S14", "S14s", "S15",
];

fn array_conflict_situation(sit: &str) -> bool {
    sit.starts_with("S5") || sit.starts_with("S8") || sit.starts_with("S9")
}

fn build(sit: &str, script: usize, seed: u64) -> Result<Sit, String> {
    let mut rng = if script == 0 { None } else { Some(Rng::new(seed.wrapping_mul(7919).wrapping_add(script as u64))) };
    let mut model = Model::new();
    let ad = orch::mem();
    let staged = sit.ends_with('s') || sit == "S1" || sit == "S2";
    match sit {
        "S1" | "S2c" | "S2" | "S6" | "S6s" | "S11" | "S11s" => {
            let m = orch::open(&ad)?;
            let per_commit = if sit.starts_with("S6") { 3 } else { 2 };
            let mut older = None;
            upd(&m, &model, "update")?;
            for _ in 0..per_commit {
                model.edit(&mut rng);
                upd(&m, &model, "update")?;
            }
            if sit != "S1" {
                older = Some(commit_some(&m, "commit 1")?);
                for c in 2..=3 {
                    for _ in 0..per_commit {
                        model.edit(&mut rng);
                        upd(&m, &model, "update")?;
                    }
                    commit_some(&m, &format!("commit {}", c))?;
                }
                if sit == "S2" || sit == "S6s" {
                    for _ in 0..2 {
                        model.edit(&mut rng);
                        upd(&m, &model, "staged update")?;
                    }
                }
                if sit.starts_with("S11") {
                    let h = older.clone().unwrap_or_default();
                    orch::ge("reload_until(first head)", || m.reload_until(&h))?;
                    if sit == "S11s" {
                        orch::ge("update_object(o1) on the time-travelled replica", || m.update_object("o1", orch::obj(json!({"v": 1111}))))?;
                    }
                }
            }
            Ok(Sit { m, ad, peer: stranger()?, older })
        }
        "S3" | "S3s" => {
            let a = orch::open(&orch::mem())?;
            upd(&a, &model, "A.update")?;
            commit_some(&a, "A.commit 1")?;
            let mut b = orch::open(&ad)?;
            sync(&mut b, &a, "B takes A's first commit")?;
            let older = Some(orch::g(|| b.get_anchors()).map_err(|p| format!("panic in get_anchors: {}", p))?);
            for c in 2..=3 {
                model.edit(&mut rng);
                upd(&a, &model, "A.update")?;
                commit_some(&a, &format!("A.commit {}", c))?;
            }
            orch::ge("B.meld(A) without refresh", || b.meld(&a))?;
            if sit == "S3s" {
                orch::ge("B.update_object(o1)", || b.update_object("o1", orch::obj(json!({"v": 333}))))?;
            }
            Ok(Sit { m: b, ad, peer: a, older })
        }
        "S14" | "S14s" => {
            // an editor and a viewer on ONE adapter (the same Arc<RwLock<Box<dyn Adapter>>>); the viewer (subject) was
            // opened before the editor committed anything
            let viewer = orch::open(&ad)?;
            let editor = orch::open(&ad)?;
            upd(&editor, &model, "editor.update")?;
            let older = Some(commit_some(&editor, "editor.commit 1")?);
            model.edit(&mut rng);
            upd(&editor, &model, "editor.update")?;
            commit_some(&editor, "editor.commit 2")?;
            if sit == "S14s" {
                orch::ge("viewer.create_object", || viewer.create_object("vnote", orch::obj(json!({"seen": true}))))?;
            }
            Ok(Sit { m: viewer, ad, peer: editor, older })
        }
        "S15" => {
            // a long linear history (`script` commits); the subject is a SECOND replica opened on the same storage
            let author = orch::open(&ad)?;
            let mut older = None;
            for i in 0..script.max(3) {
                orch::ge("author.update_object", || author.update_object(&format!("o{}", i % 7), orch::obj(json!({"v": i}))))?;
                let h = commit_some(&author, "author.commit")?;
                if i == 1 {
                    older = Some(h);
                }
            }
            let second = orch::open(&ad)?;
            Ok(Sit { m: second, ad, peer: author, older })
        }
        "S13" | "S13s" => {
            // reference cycle: A moves y under x, B moves x under y; after the meld x references y and y references x
            let kf = |s: &str| format!("{}{}", s, F);
            let mut base = Map::new();
            base.insert(kf("a"), json!({"_id": "x", "v": 1}));
            base.insert(kf("b"), json!({"_id": "y", "v": 1}));
            let mut a = orch::open(&ad)?;
            orch::ge("A.update(base)", || a.update(base))?;
            let older = Some(commit_some(&a, "A.commit base")?);
            let mut b = orch::open(&orch::mem())?;
            sync(&mut b, &a, "B takes the base")?;
            let nest = |outer_key: &str, outer: &str, inner: &str| {
                let mut o = Map::new();
                o.insert("_id".into(), json!(outer));
                o.insert("v".into(), json!(1));
                o.insert(kf("child"), json!({"_id": inner, "v": 1}));
                let mut d = Map::new();
                d.insert(kf(outer_key), Value::Object(o));
                d
            };
            orch::ge("A.update(y under x)", || a.update(nest("a", "x", "y")))?;
            commit_some(&a, "A.commit")?;
            orch::ge("B.update(x under y)", || b.update(nest("b", "y", "x")))?;
            commit_some(&b, "B.commit")?;
            sync(&mut a, &b, "A melds B")?;
            let child = |m: &Melda, o: &str| orch::g(|| m.get_value(o, None)).ok().and_then(|r| r.ok()).and_then(|v| v.get(&kf("child")).cloned());
            if child(&a, "x") != Some(json!("y")) || child(&a, "y") != Some(json!("x")) {
                return Err(format!("driver: no reference cycle: x.child = {:?}, y.child = {:?}", child(&a, "x"), child(&a, "y")));
            }
            if sit == "S13s" {
                let mut x2 = Map::new();
                x2.insert("v".into(), json!(2));
                x2.insert(kf("child"), json!("y"));
                orch::ge("A.update_object(x)", || a.update_object("x", x2))?;
            }
            Ok(Sit { m: a, ad, peer: b, older })
        }
        "S12" | "S12s" => {
            let a_ad = orch::mem();
            let a = orch::open(&a_ad)?;
            upd(&a, &model, "A.update")?;
            let older = Some(commit_some(&a, "A.commit 1")?);
            let mut last = BTreeSet::new();
            for c in 2..=3 {
                model.edit(&mut rng);
                upd(&a, &model, "A.update")?;
                last = commit_some(&a, &format!("A.commit {}", c))?;
            }
            let id3 = last.iter().next().cloned().ok_or("no third block")?;
            let d3 = orch::ge("get_delta", || a.get_delta(&id3))?.ok_or("get_delta(third block) is None")?;
            let held: BTreeSet<String> = d3.packs.clone().unwrap_or_default().iter().map(|p| format!("{}.pack", p)).collect();
            if held.is_empty() {
                return Err("driver: the third block lists no pack".into());
            }
            for (k, bytes) in orch::items_of(&a_ad)? {
                if !held.contains(&k) {
                    orch::put(&ad, &k, &bytes)?;
                }
            }
            let m = orch::open(&ad)?;
            if sit == "S12s" {
                orch::ge("update_object(o1)", || m.update_object("o1", orch::obj(json!({"v": 1212}))))?;
            }
            Ok(Sit { m, ad, peer: a, older })
        }
        _ => {
            // S4*, S5*, S7*, S8*, S9*, S10: A (subject) and its peers diverge from a common base
            let mut a = orch::open(&ad)?;
            upd(&a, &model, "A.update(base)")?;
            model.edit(&mut rng);
            upd(&a, &model, "A.update(base, second version)")?;
            let older = Some(commit_some(&a, "A.commit base")?);
            let mut b = orch::open(&orch::mem())?;
            sync(&mut b, &a, "B takes the base")?;
            let mut third: Option<Melda> = None;
            let mut mb = model.clone();
            let kind = sit.trim_end_matches('s');
            match kind {
                "S4" | "S10" => {
                    model.mutate(0);
                    model.mutate(2);
                    upd(&a, &model, "A.update")?;
                    orch::ge("B.update_object(o1)", || b.update_object("o1", orch::obj(json!({"v": 900}))))?;
                }
                "S5a" => {
                    model.items.push(("k5".into(), 5));
                    mb.items.push(("k6".into(), 6));
                    upd(&a, &model, "A.update (append k5)")?;
                    upd(&b, &mb, "B.update (append k6)")?;
                }
                "S5b" => {
                    model.items.reverse();
                    mb.items.remove(0);
                    upd(&a, &model, "A.update (reverse)")?;
                    upd(&b, &mb, "B.update (remove first)")?;
                }
                "S7" => {
                    let mut c = orch::open(&orch::mem())?;
                    sync(&mut c, &a, "C takes the base")?;
                    model.mutate(0);
                    upd(&a, &model, "A.update (o1)")?;
                    orch::ge("B.update_object(o1)", || b.update_object("o1", orch::obj(json!({"v": 900}))))?;
                    orch::ge("C.delete_object(o1)", || c.delete_object("o1"))?;
                    commit_some(&c, "C.commit")?;
                    third = Some(c);
                }
                "S8" => {
                    model.items.push(("k5".into(), 5));
                    model.mutate(0);
                    mb.items.push(("k6".into(), 6));
                    mb.o1 = 900;
                    upd(&a, &model, "A.update (append k5, o1)")?;
                    upd(&b, &mb, "B.update (append k6, o1)")?;
                }
                _ => {
                    model.list = false;
                    mb.items.push(("k6".into(), 6));
                    upd(&a, &model, "A.update (array key removed)")?;
                    upd(&b, &mb, "B.update (append k6)")?;
                }
            }
            commit_some(&a, "A.commit")?;
            commit_some(&b, "B.commit")?;
            sync(&mut a, &b, "A melds B")?;
            if let Some(c) = &third {
                sync(&mut a, c, "A melds C")?;
            }
            let conflicts = orch::g(|| a.in_conflict()).map_err(|p| format!("panic in in_conflict: {}", p))?;
            let array_conflict = conflicts.iter().any(|o| o.starts_with('^'));
            if array_conflict != array_conflict_situation(sit) {
                return Err(format!("driver: {} expects array conflict = {}, in_conflict() = {:?}", sit, array_conflict_situation(sit), conflicts));
            }
            if matches!(kind, "S4" | "S7" | "S8" | "S10") && !conflicts.contains("o1") {
                return Err(format!("driver: {} expects an object conflict on o1, in_conflict() = {:?}", sit, conflicts));
            }
            if kind == "S7" {
                let n = orch::ge("get_conflicting(o1)", || a.get_conflicting("o1"))?.len();
                if n != 2 {
                    return Err(format!("driver: S7 expects three leaves on o1, get_conflicting has {}", n));
                }
            }
            if staged {
                orch::ge("A.update_object(o2)", || a.update_object("o2", orch::obj(json!({"v": 444, "s": "x}y"}))))?;
            }
            if kind == "S10" {
                let w = orch::ge("get_winner(o1)", || a.get_winner("o1"))?;
                orch::ge("resolve_as(o1, winner)", || a.resolve_as("o1", &w))?;
            }
            Ok(Sit { m: a, ad, peer: b, older })
        }
    }
}

#[derive(Clone, Debug)]
pub struct OpSpec {
    name: String,
    uuid: Option<String>,
    k: usize,
}

impl OpSpec {
    fn plain(n: &str) -> OpSpec {
        OpSpec { name: n.to_string(), uuid: None, k: 0 }
    }
    fn id(&self) -> String {
        match &self.uuid {
            Some(u) => format!("{}:{}:{}", self.name, u, self.k),
            None => self.name.clone(),
        }
    }
    fn commits(&self) -> bool {
        self.name.contains("commit")
    }
}

const PLAIN_OPS: [&str; 33] = [
    "commit",
    "commit-info",
    "update-edit",
    "update-reread",
    "create_object",
    "update_object",
    "delete_object",
    "read",
    "read-o1",
    "get_value-all",
    "get_winner-all",
    "get_conflicting-all",
    "get_parent_revision-all",
    "in_conflict",
    "unstage",
    "stage",
    "unstage+replay_stage",
    "snapshot",
    "snapshot+commit",
    "meld-in",
    "meld-out",
    "refresh",
    "reload",
    "reload_until-own",
    "reload_until-older",
    "new_until-older",
    "get_anchors",
    "get_delta-all",
    "new",
    "has_staging",
    "get_all_objects",
    "update_object-o2",
    "delete_object-o2",
];

fn leaves(m: &Melda, uuid: &str) -> Result<Vec<String>, String> {
    let w = orch::ge("get_winner", || m.get_winner(uuid))?;
    let o = orch::ge("get_conflicting", || m.get_conflicting(uuid))?;
    let mut v = vec![w];
    v.extend(o);
    Ok(v)
}

/// the operations whose arguments can be formed in this situation
const LONG_HISTORY_OPS: [&str; 8] = ["new", "reload", "refresh", "reload_until-own", "reload_until-older", "new_until-older", "meld-in", "read"];

fn ops_of(s: &Sit) -> Result<Vec<OpSpec>, String> {
    let mut out = vec![];
    for n in PLAIN_OPS {
        if (n == "reload_until-older" || n == "new_until-older") && s.older.is_none() {
            continue;
        }
        out.push(OpSpec::plain(n));
    }
    let conflicts = orch::g(|| s.m.in_conflict()).map_err(|p| format!("panic in in_conflict: {}", p))?;
    for u in conflicts {
        let n = leaves(&s.m, &u)?.len();
        for k in 0..n {
            out.push(OpSpec { name: "resolve_as".into(), uuid: Some(u.clone()), k });
            out.push(OpSpec { name: "resolve_as+commit".into(), uuid: Some(u.clone()), k });
        }
    }
    Ok(out)
}

fn brief<T, E: std::fmt::Display>(r: Result<T, E>) -> String {
    match r {
        Ok(_) => "Ok".to_string(),
        Err(e) => format!("Err({})", e.to_string().lines().next().unwrap_or("")),
    }
}

/// runs the one operation; the returned text says whether it gave Ok or Err (both fine)
fn run_op(s: &mut Sit, op: &OpSpec) -> Result<String, String> {
    let info = || Some(orch::obj(json!({"who": "returns", "n": [1, 2.5]})));
    let m = &s.m;
    let r = match op.name.as_str() {
        "commit" => brief(m.commit(None)),
        "commit-info" => brief(m.commit(info())),
        "update-edit" | "update-reread" => {
            let mut d = match m.read(None) {
                Ok(d) => d,
                Err(_) => Model::new().doc(),
            };
            if op.name == "update-edit" {
                d.insert("title".into(), json!("edited"));
            }
            brief(m.update(d))
        }
        "create_object" => brief(m.create_object("o1", orch::obj(json!({"v": 7001})))),
        "update_object" => brief(m.update_object("o1", orch::obj(json!({"v": 7002})))),
        "delete_object" => brief(m.delete_object("o1")),
        "update_object-o2" => brief(m.update_object("o2", orch::obj(json!({"v": 7003})))),
        "delete_object-o2" => brief(m.delete_object("o2")),
        "read" => brief(m.read(None)),
        "read-o1" => brief(m.read(Some("o1"))),
        "get_value-all" => {
            let mut n = 0;
            for o in m.get_all_objects() {
                let _ = m.get_value(&o, None);
                n += 1;
                if let Ok(ls) = leaves(m, &o) {
                    for l in ls {
                        let _ = m.get_value(&o, Some(&l));
                        n += 1;
                    }
                }
            }
            format!("Ok({} calls)", n)
        }
        "get_winner-all" => {
            for o in m.get_all_objects() {
                let _ = m.get_winner(&o);
            }
            brief(m.get_winner("no-such-object"))
        }
        "get_conflicting-all" => {
            for o in m.get_all_objects() {
                let _ = m.get_conflicting(&o);
            }
            brief(m.get_conflicting("no-such-object"))
        }
        "get_parent_revision-all" => {
            let mut n = 0;
            for o in m.get_all_objects() {
                if let Ok(ls) = leaves(m, &o) {
                    for l in ls {
                        let mut cur = Some(l);
                        while let Some(r) = cur {
                            cur = m.get_parent_revision(&o, &r).ok().flatten();
                            n += 1;
                            if n > 10_000 {
                                return Err("driver: parent chain does not end".into());
                            }
                        }
                    }
                }
            }
            format!("Ok({} calls)", n)
        }
        "in_conflict" => format!("Ok({})", m.in_conflict().len()),
        "has_staging" => format!("Ok({})", m.has_staging()),
        "get_all_objects" => format!("Ok({})", m.get_all_objects().len()),
        "get_anchors" => format!("Ok({})", m.get_anchors().len()),
        "resolve_as" | "resolve_as+commit" => {
            let u = op.uuid.clone().unwrap_or_default();
            let ls = leaves(m, &u)?;
            let l = ls.get(op.k).cloned().ok_or("driver: leaf index out of range")?;
            let r1 = brief(m.resolve_as(&u, &l));
            if op.name == "resolve_as" {
                r1
            } else {
                format!("{} then commit {}", r1, brief(m.commit(None)))
            }
        }
        "unstage" => brief(s.m.unstage()),
        "stage" => brief(m.stage()),
        "unstage+replay_stage" => {
            let st = m.stage().map_err(|e| format!("stage() is Err({})", e));
            match st {
                Err(e) => e,
                Ok(st) => {
                    let r1 = brief(s.m.unstage());
                    format!("unstage {} then replay_stage {}", r1, brief(s.m.replay_stage(&st)))
                }
            }
        }
        "snapshot" => brief(m.stage_full_snapshot()),
        "snapshot+commit" => {
            let r1 = brief(m.stage_full_snapshot());
            format!("{} then commit {}", r1, brief(m.commit(None)))
        }
        "meld-in" => brief(m.meld(&s.peer)),
        "meld-out" => brief(s.peer.meld(m)),
        "refresh" => brief(s.m.refresh()),
        "reload" => brief(m.reload()),
        "reload_until-own" => {
            let h = m.get_anchors();
            brief(m.reload_until(&h))
        }
        "reload_until-older" => {
            let h = s.older.clone().unwrap_or_default();
            brief(m.reload_until(&h))
        }
        "new_until-older" => {
            let h = s.older.clone().unwrap_or_default();
            brief(Melda::new_until(s.ad.clone(), &h))
        }
        "get_delta-all" => {
            let mut todo: Vec<DeltaId> = m.get_anchors().into_iter().collect();
            let mut seen: BTreeSet<DeltaId> = BTreeSet::new();
            while let Some(d) = todo.pop() {
                if !seen.insert(d.clone()) {
                    continue;
                }
                if let Ok(Some(delta)) = m.get_delta(&d) {
                    let _ = delta.to_json_string();
                    todo.extend(delta.parents.unwrap_or_default());
                }
            }
            let _ = m.get_delta(&DeltaId::new("ab".repeat(32)));
            format!("Ok({} blocks)", seen.len())
        }
        "new" => brief(Melda::new(s.ad.clone())),
        other => return Err(format!("driver: unknown operation {}", other)),
    };
    Ok(r)
}

enum Step {
    OpReturned(String),
    OpPanicked(String),
    ReadReturned,
    ReadPanicked(String),
    Setup(String),
    /// the child process that ran the case died (stack overflow, abort)
    Aborted(String),
}

fn with_caps<T>(sit: &str, f: impl FnOnce() -> T) -> T {
    let caps = sit.starts_with("S6");
    if caps {
        std::env::set_var("MELDA_ARRAYDESCRIPTORS_CACHE_CAP", "1");
        std::env::set_var("MELDA_DATA_CACHE_CAP", "1");
    }
    // not removed here: threads of one wave run concurrently; `uncap` is called between the phases
    f()
}

fn uncap() {
    std::env::remove_var("MELDA_ARRAYDESCRIPTORS_CACHE_CAP");
    std::env::remove_var("MELDA_DATA_CACHE_CAP");
}

/// The reference-cycle situations run in a child process (this binary, `replay returns {.., "inproc": true}`), on a thread
/// with a 1 MiB stack: unbounded recursion overflows the stack, which kills the whole process and cannot be caught.
fn spawn_case(sit: &'static str, script: usize, seed: u64, op: OpSpec) -> Receiver<Step> {
    if sit.starts_with("S13") || sit == "S15" {
        return spawn_child(sit, script, seed, op);
    }
    spawn_inproc(sit, script, seed, op, 8 << 20)
}

fn spawn_child(sit: &'static str, script: usize, seed: u64, op: OpSpec) -> Receiver<Step> {
    let (tx, rx) = channel();
    let _ = std::thread::spawn(move || {
        let mut input = input_of(sit, script, seed, &op);
        input["inproc"] = json!(true);
        let case = json!({"case_id": "child", "input": input});
        let exe = match std::env::current_exe() {
            Ok(e) => e,
            Err(e) => {
                let _ = tx.send(Step::Setup(format!("current_exe: {}", e)));
                return;
            }
        };
        let child = std::process::Command::new(exe)
            .args(["replay", "returns", &case.to_string()])
            .stdin(std::process::Stdio::null())
            .stdout(std::process::Stdio::piped())
            .stderr(std::process::Stdio::piped())
            .spawn();
        let mut child = match child {
            Ok(c) => c,
            Err(e) => {
                let _ = tx.send(Step::Setup(format!("cannot start the child process: {}", e)));
                return;
            }
        };
        let t0 = Instant::now();
        let status = loop {
            match child.try_wait() {
                Ok(Some(st)) => break Some(st),
                Ok(None) if t0.elapsed() > Duration::from_secs(8) => {
                    let _ = child.kill();
                    let _ = child.wait();
                    break None;
                }
                Ok(None) => std::thread::sleep(Duration::from_millis(5)),
                Err(_) => break None,
            }
        };
        let read_all = |r: Option<&mut dyn std::io::Read>| {
            let mut s = String::new();
            if let Some(r) = r {
                let _ = r.read_to_string(&mut s);
            }
            s
        };
        let stdout = read_all(child.stdout.as_mut().map(|x| x as &mut dyn std::io::Read));
        let stderr = read_all(child.stderr.as_mut().map(|x| x as &mut dyn std::io::Read));
        let st = match status {
            Some(st) => st,
            None => return, // killed after the time limit: the parent books a hang
        };
        if !st.success() {
            use std::os::unix::process::ExitStatusExt;
            let _ = tx.send(Step::Aborted(format!(
                "the process running the case died ({}): {}",
                st.signal().map(|s| format!("signal {}", s)).unwrap_or_else(|| format!("exit code {:?}", st.code())),
                stderr.lines().filter(|l| !l.trim().is_empty()).last().unwrap_or("")
            )));
            return;
        }
        let v: Value = stdout.lines().last().and_then(|l| serde_json::from_str(l).ok()).unwrap_or(Value::Null);
        let what = v["what"].as_str().unwrap_or("").to_string();
        match v["outcome"].as_str() {
            Some("returned") => {
                let _ = tx.send(Step::OpReturned(what));
                let _ = tx.send(Step::ReadReturned);
            }
            Some("panic") => {
                let _ = tx.send(Step::OpPanicked(what));
            }
            Some("hang") => {} // the parent's limit books it
            Some("setup") => {
                let _ = tx.send(Step::Setup(what));
            }
            _ => {
                let _ = tx.send(Step::Setup(format!("unreadable answer of the child process: {}", stdout)));
            }
        }
    });
    rx
}

/// The situation is built on a thread with a normal stack (lazily initialised statics of the library are set up there
/// too); the operation and the follow-up read run on a thread of their own with `stack` bytes.
fn spawn_inproc(sit: &'static str, script: usize, seed: u64, op: OpSpec, stack: usize) -> Receiver<Step> {
    let (tx, rx) = channel();
    let _ = std::thread::Builder::new().stack_size(8 << 20).spawn(move || {
        let built = with_caps(sit, || orch::g(|| build(sit, script, seed)));
        let mut s = match built {
            Ok(Ok(s)) => s,
            Ok(Err(e)) => {
                let _ = tx.send(Step::Setup(e));
                return;
            }
            Err(p) => {
                let _ = tx.send(Step::Setup(format!("panic while building: {}", p.lines().next().unwrap_or(""))));
                return;
            }
        };
        let inner = std::thread::Builder::new().stack_size(stack).spawn(move || {
            with_caps(sit, || {
                match orch::g(|| run_op(&mut s, &op)) {
                    Ok(Ok(r)) => {
                        let _ = tx.send(Step::OpReturned(r));
                    }
                    Ok(Err(e)) => {
                        let _ = tx.send(Step::Setup(e));
                        return;
                    }
                    Err(p) => {
                        let _ = tx.send(Step::OpPanicked(p.lines().next().unwrap_or("").to_string()));
                        return;
                    }
                }
                match orch::g(|| s.m.read(None).map(|_| ())) {
                    Ok(_) => {
                        let _ = tx.send(Step::ReadReturned);
                    }
                    Err(p) => {
                        let _ = tx.send(Step::ReadPanicked(p.lines().next().unwrap_or("").to_string()));
                    }
                }
            })
        });
        if let Ok(h) = inner {
            let _ = h.join();
        }
    });
    rx
}

/// (failure id prefix, what) — None when both steps returned
fn verdict(rx: &Receiver<Step>, deadline: Instant, limit: Duration) -> Option<(&'static str, String)> {
    let mut op_result: Option<String> = None;
    loop {
        let left = deadline.checked_duration_since(Instant::now()).unwrap_or(Duration::from_millis(20)).max(Duration::from_millis(20));
        match rx.recv_timeout(left) {
            Ok(Step::OpReturned(r)) => op_result = Some(r),
            Ok(Step::ReadReturned) => return None,
            Ok(Step::OpPanicked(p)) => return Some(("panic", format!("the operation panicked: {}", p))),
            Ok(Step::ReadPanicked(p)) => return Some(("panic", format!("the operation returned ({}), the following read(None) panicked: {}", op_result.unwrap_or_default(), p))),
            Ok(Step::Setup(e)) => return Some(("setup", format!("the situation could not be built / driven: {}", e))),
            Ok(Step::Aborted(e)) => return Some(("abort", e)),
            Err(_) => {
                return Some(match op_result {
                    None => ("hang", format!("the operation did not return within {} ms (thread abandoned)", limit.as_millis())),
                    Some(r) => ("hang", format!("the operation returned ({}), the following read(None) did not return within the limit", r)),
                })
            }
        }
    }
}

fn case_id(sit: &str, script: usize, op: &OpSpec) -> String {
    if script == 0 {
        format!("{}:{}", sit, op.id())
    } else {
        format!("{}#{}:{}", sit, script, op.id())
    }
}

fn input_of(sit: &str, script: usize, seed: u64, op: &OpSpec) -> Value {
    json!({"situation": sit, "script": script, "seed": seed, "op": op.name, "uuid": op.uuid, "k": op.k})
}

struct Tally {
    hangs: Vec<String>,
    panics: Vec<String>,
}

fn book(out: &Out, tally: &mut Tally, sit: &str, script: usize, seed: u64, op: &OpSpec, v: Option<(&'static str, String)>) {
    let id = case_id(sit, script, op);
    out.case(&id, true);
    if let Some((kind, what)) = v {
        let fid = if kind == "setup" { format!("setup:{}", id) } else { format!("{}:{}", kind, id) };
        eprintln!("[returns] {} {} | {}", kind.to_uppercase(), fid, what);
        match kind {
            "hang" => tally.hangs.push(id.clone()),
            "panic" | "abort" => tally.panics.push(id.clone()),
            _ => {}
        }
        // one slot per kind and operation name keeps the report informative
        out.fail(&format!("{}:{}", kind, op.name), &fid, input_of(sit, script, seed, op), &what);
    }
}

fn work(thorough: bool, seed: u64, out: &Out) {
    let limit = if thorough { Duration::from_secs(5) } else { Duration::from_secs(2) };
    let mut tally = Tally { hangs: vec![], panics: vec![] };
    // enumerate the cases (the situation is built once here to see which arguments can be formed)
    let mut all: Vec<(&'static str, usize, OpSpec)> = vec![];
    for sit in SITUATIONS {
        if sit == "S15" {
            // `script` carries the number of commits; the operations need no enumeration
            let n = if thorough { 1500 } else { 1000 };
            all.extend(LONG_HISTORY_OPS.iter().map(|o| (sit, n, OpSpec::plain(o))));
            continue;
        }
        let scripts = if thorough && !matches!(sit.trim_end_matches('s'), "S7" | "S8" | "S9" | "S10" | "S13" | "S14") { 4 } else { 1 };
        for script in 0..scripts {
            out.begin(&format!("{}#{}: enumerating operations", sit, script), json!({"situation": sit, "script": script}));
            let (tx, rx) = channel();
            let _ = std::thread::Builder::new().stack_size(8 << 20).spawn(move || {
                let r = with_caps(sit, || orch::g(|| build(sit, script, seed).and_then(|s| ops_of(&s))));
                let _ = tx.send(r);
            });
            match rx.recv_timeout(limit) {
                Ok(Ok(Ok(ops))) => all.extend(ops.into_iter().map(|o| (sit, script, o))),
                other => {
                    let what = match other {
                        Ok(Ok(Err(e))) => format!("the situation could not be built: {}", e),
                        Ok(Err(p)) => format!("panic while building the situation: {}", p.lines().next().unwrap_or("")),
                        _ => "building the situation did not return within the limit".to_string(),
                    };
                    let id = format!("setup:{}#{}", sit, script);
                    out.case(&id, true);
                    eprintln!("[returns] SETUP {} | {}", id, what);
                    out.fail("setup", &id, json!({"situation": sit, "script": script, "seed": seed}), &what);
                }
            }
        }
    }
    uncap();
    // expected-slow group first, all at once
    let started = Instant::now();
    let slow = |sit: &str, op: &OpSpec| array_conflict_situation(sit) && op.commits();
    let parked: Vec<(&'static str, usize, OpSpec, Receiver<Step>)> =
        all.iter().filter(|(s, _, o)| slow(s, o)).map(|(s, sc, o)| (*s, *sc, o.clone(), spawn_case(*s, *sc, seed, o.clone()))).collect();
    // everything else in waves; the capped-cache situations last (the caps are process-wide environment variables)
    for caps in [false, true] {
        let rest: Vec<&(&'static str, usize, OpSpec)> = all.iter().filter(|(s, _, o)| !slow(s, o) && *s != "S15" && s.starts_with("S6") == caps).collect();
        for wave in rest.chunks(16) {
            out.begin(&format!("wave starting at {}", case_id(wave[0].0, wave[0].1, &wave[0].2)), input_of(wave[0].0, wave[0].1, seed, &wave[0].2));
            let t0 = Instant::now();
            let rxs: Vec<Receiver<Step>> = wave.iter().map(|(s, sc, o)| spawn_case(*s, *sc, seed, o.clone())).collect();
            for ((s, sc, o), rx) in wave.iter().zip(rxs.iter()) {
                let v = verdict(rx, t0 + limit, limit);
                book(out, &mut tally, s, *sc, seed, o, v);
            }
        }
        if !caps {
            // the long-history cases rebuild a long history each (in child processes): four at a time, own time limit
            let long_limit = Duration::from_secs(8);
            let long: Vec<&(&'static str, usize, OpSpec)> = all.iter().filter(|(s, _, _)| *s == "S15").collect();
            for wave in long.chunks(4) {
                out.begin(&format!("wave starting at {}", case_id(wave[0].0, wave[0].1, &wave[0].2)), input_of(wave[0].0, wave[0].1, seed, &wave[0].2));
                let t0 = Instant::now();
                let rxs: Vec<Receiver<Step>> = wave.iter().map(|(s, sc, o)| spawn_case(*s, *sc, seed, o.clone())).collect();
                for ((s, sc, o), rx) in wave.iter().zip(rxs.iter()) {
                    let v = verdict(rx, t0 + long_limit, long_limit);
                    book(out, &mut tally, s, *sc, seed, o, v);
                }
            }
            out.begin("collecting the expected-slow group", json!({}));
            for (s, sc, o, rx) in &parked {
                let v = verdict(rx, started + limit, limit);
                book(out, &mut tally, s, *sc, seed, o, v);
            }
        }
    }
    uncap();
    let group = |v: &Vec<String>| -> String {
        let mut per: std::collections::BTreeMap<String, u64> = std::collections::BTreeMap::new();
        for h in v {
            let (sit, op) = h.split_once(':').unwrap_or((h.as_str(), ""));
            *per.entry(format!("{}:{}", sit.split('#').next().unwrap_or(sit), op)).or_insert(0) += 1;
        }
        per.iter().map(|(k, n)| if *n > 1 { format!("{} x{}", k, n) } else { k.clone() }).collect::<Vec<String>>().join(", ")
    };
    out.note(&format!("{} cases, {} hung, {} panicked", all.len(), tally.hangs.len(), tally.panics.len()));
    if !tally.hangs.is_empty() {
        out.note(&format!("hung: {}", group(&tally.hangs)));
        out.not_exhaustive();
    }
    if !tally.panics.is_empty() {
        out.note(&format!("panicked: {}", group(&tally.panics)));
    }
}

pub fn run(thorough: bool, seed: u64) -> Report {
    let mut rep = Report::new(
        "returns",
        if thorough {
            "29 situations (S1..S6s as in `maintenance`, S7/S7s three-leaf object conflict, S8/S8s array + object conflict, S9/S9s array deleted on one side and edited on the other, S10 resolved but not committed, S11/S11s time-travelled, S12/S12s held-back block with a missing pack, S13/S13s reference cycle between two tracked objects, run in a child process, S14/S14s two replicas over the same adapter object, S15 history of 1000 / 1500 commits opened by a second replica in a child process, 8 operations each on a 96 KiB stack with an 8 s limit) x 4 edit scripts for S1..S6s, S11*, S12* (1 for the others) x every operation whose arguments can be formed out of 33 plain operations + resolve_as and resolve_as+commit for every live leaf of every object in conflict; one operation per case, then read(None); 5 s limit"
        } else {
            "29 situations (S1..S6s as in `maintenance`, S7/S7s three-leaf object conflict, S8/S8s array + object conflict, S9/S9s array deleted on one side and edited on the other, S10 resolved but not committed, S11/S11s time-travelled, S12/S12s held-back block with a missing pack, S13/S13s reference cycle between two tracked objects, run in a child process, S14/S14s two replicas over the same adapter object, S15 history of 1000 / 1500 commits opened by a second replica in a child process, 8 operations each on a 96 KiB stack with an 8 s limit) x 1 edit script x every operation whose arguments can be formed out of 33 plain operations + resolve_as and resolve_as+commit for every live leaf of every object in conflict; one operation per case, then read(None); 2 s limit"
        },
        "exhaustive over situations x scripts x formable operations; one case each, in a thread of its own; failure = panic (panic:<case>), death of the process running the case (abort:<case>) or no return within the limit (hang:<case>); every case non-trivial",
    );
    if std::env::var_os("RAYON_NUM_THREADS").is_none() {
        std::env::set_var("RAYON_NUM_THREADS", "2");
    }
    let mut classes = FailureClasses::new(1);
    orch::supervise(&mut rep, &mut classes, move |out| work(thorough, seed, out));
    classes.summary("returns");
    rep
}

pub fn replay(case: &Value) -> Value {
    let inp = &case["input"];
    let sit = match SITUATIONS.iter().find(|s| Some(**s) == inp["situation"].as_str()).copied() {
        Some(s) => s,
        None => return json!({"reproduced": false, "error": "bad input"}),
    };
    let op = OpSpec { name: inp["op"].as_str().unwrap_or("").to_string(), uuid: inp["uuid"].as_str().map(|s| s.to_string()), k: inp["k"].as_u64().unwrap_or(0) as usize };
    if op.name.is_empty() {
        return json!({"reproduced": false, "error": "bad input"});
    }
    let script = inp["script"].as_u64().unwrap_or(0) as usize;
    let seed = inp["seed"].as_u64().unwrap_or(0);
    let limit = Duration::from_secs(5);
    if inp["inproc"].as_bool() == Some(true) {
        // child-process mode (see spawn_child): run the case here, on a small stack, and say what happened
        // the long history's operation runs on a 96 KiB stack: recursion as deep as the history is long must not happen
        let small = std::env::var("MELDA_VERIF_SMALL_STACK_KIB").ok().and_then(|v| v.parse::<usize>().ok()).unwrap_or(96) << 10;
        let rx = spawn_inproc(sit, script, seed, op, if sit == "S15" { small } else { 1 << 20 });
        return match verdict(&rx, Instant::now() + limit, limit) {
            None => json!({"outcome": "returned", "what": "both steps returned"}),
            Some((kind, what)) => json!({"outcome": kind, "what": what}),
        };
    }
    let limit = if sit.starts_with("S13") || sit == "S15" { Duration::from_secs(9) } else { limit };
    let rx = spawn_case(sit, script, seed, op);
    let v = verdict(&rx, Instant::now() + limit, limit);
    let want = case["case_id"].as_str().unwrap_or("");
    let want_kind = want.split(':').next().unwrap_or("");
    match v {
        None => json!({"reproduced": false, "outcome": "returned"}),
        Some((kind, what)) => json!({"reproduced": want_kind == kind || !matches!(want_kind, "hang" | "panic" | "setup" | "abort"), "outcome": kind, "what": what}),
    }
}
