//! C16: src/utils.rs `make_diff_patch` / `apply_diff_patch`, and the ASSUMED CONTRACT of the external
//! `yavomrs::yavom::myers_unfilled` they are built on.
//!  patch:  apply_diff_patch(a, make_diff_patch(a, b)) == b; every op is ["d", count, index] or
//!          ["i", index, [items]] and is in range when applied in order.
//!  myers:  every move is INSERT with s.0 == t.0 && t.1 > s.1, or DELETE with s.1 == t.1 && t.0 > s.0
//!          (never _DELETE); from the current point (x, y) (initially (0,0)) the move's start s is
//!          reached by a diagonal on which a[x+i] == b[y+i]; after the last move a diagonal reaches
//!          (len a, len b).
//! Domain: all ordered pairs of sequences (repeats allowed) over 3 symbols up to length L.
use crate::Report;
use melda::vf::utils;
use serde_json::{json, Value};
use yavomrs::yavom::{myers_unfilled, Move, Point, OP};

fn seqs(k: usize, l: usize) -> Vec<Vec<u8>> {
    let mut out: Vec<Vec<u8>> = vec![vec![]];
    let mut frontier: Vec<Vec<u8>> = vec![vec![]];
    for _ in 0..l {
        let mut next = vec![];
        for s in &frontier {
            for c in 0..k as u8 {
                let mut t = s.clone();
                t.push(c);
                next.push(t);
            }
        }
        out.extend(next.iter().cloned());
        frontier = next;
    }
    out
}

fn to_vals(s: &[u8]) -> Vec<Value> {
    s.iter().map(|c| Value::from(((b'A' + c) as char).to_string())).collect()
}

pub fn check_patch(a: &[Value], b: &[Value]) -> Result<(), String> {
    let (a1, b1) = (a.to_vec(), b.to_vec());
    let patch = match super::guarded(move || utils::make_diff_patch(&a1, &b1).map_err(|e| e.to_string())) {
        Err(p) => return Err(format!("panic in make_diff_patch: {}", p)),
        Ok(Err(e)) => return Err(format!("make_diff_patch is Err({})", e)),
        Ok(Ok(p)) => p,
    };
    // shape and range of every op, applied in order on a length model
    let mut len = a.len() as u64;
    for op in &patch {
        let arr = op.as_array().ok_or_else(|| format!("patch op {} is not an array", op))?;
        if arr.len() != 3 {
            return Err(format!("patch op {} does not have 3 fields", op));
        }
        match arr[0].as_str() {
            Some("d") => {
                let (count, index) = match (arr[1].as_u64(), arr[2].as_u64()) {
                    (Some(c), Some(i)) => (c, i),
                    _ => return Err(format!("delete op {} has non-numeric fields", op)),
                };
                if count == 0 || index + count > len {
                    return Err(format!("delete op {} out of range for length {} (patch {})", op, len, Value::from(patch.clone())));
                }
                len -= count;
            }
            Some("i") => {
                let index = arr[1].as_u64().ok_or_else(|| format!("insert op {} index not a number", op))?;
                let items = arr[2].as_array().ok_or_else(|| format!("insert op {} items not an array", op))?;
                if items.is_empty() || index > len {
                    return Err(format!("insert op {} out of range for length {} (patch {})", op, len, Value::from(patch.clone())));
                }
                len += items.len() as u64;
            }
            _ => return Err(format!("patch op {} is neither \"d\" nor \"i\"", op)),
        }
    }
    let (mut a2, p2) = (a.to_vec(), patch.clone());
    let out = match super::guarded(move || utils::apply_diff_patch(&mut a2, &p2).map(|_| a2).map_err(|e| e.to_string())) {
        Err(p) => return Err(format!("panic in apply_diff_patch: {} (patch {})", p, Value::from(patch))),
        Ok(Err(e)) => return Err(format!("apply_diff_patch is Err({}) (patch {})", e, Value::from(patch))),
        Ok(Ok(o)) => o,
    };
    if out != b {
        return Err(format!("apply(a, make(a,b)) = {} != b (patch {})", Value::from(out), Value::from(patch)));
    }
    Ok(())
}

pub fn check_myers(a: &[Value], b: &[Value]) -> Result<(), String> {
    let (a1, b1) = (a.to_vec(), b.to_vec());
    let moves: Vec<(String, i64, i64, i64, i64)> = match super::guarded(move || {
        myers_unfilled(&a1, &b1)
            .into_iter()
            .map(|Move(op, Point(sx, sy), Point(tx, ty), _)| {
                let o = match op {
                    OP::INSERT => "INSERT",
                    OP::DELETE => "DELETE",
                    OP::_DELETE => "_DELETE",
                };
                (o.to_string(), sx, sy, tx, ty)
            })
            .collect()
    }) {
        Err(p) => return Err(format!("panic in myers_unfilled: {}", p)),
        Ok(m) => m,
    };
    let (n, m) = (a.len() as i64, b.len() as i64);
    let (mut x, mut y) = (0i64, 0i64);
    let diag = |x: i64, y: i64, sx: i64, sy: i64| -> bool {
        if sx < x || sy < y || sx - x != sy - y || sx > n || sy > m {
            return false;
        }
        (0..(sx - x)).all(|i| a[(x + i) as usize] == b[(y + i) as usize])
    };
    for (k, (op, sx, sy, tx, ty)) in moves.iter().enumerate() {
        let ctx = format!("move {} = {} ({},{})->({},{}) of {:?}", k, op, sx, sy, tx, ty, moves);
        match op.as_str() {
            "INSERT" => {
                if !(sx == tx && ty > sy) {
                    return Err(format!("INSERT shape violated: {}", ctx));
                }
            }
            "DELETE" => {
                if !(sy == ty && tx > sx) {
                    return Err(format!("DELETE shape violated: {}", ctx));
                }
            }
            _ => return Err(format!("unexpected op kind: {}", ctx)),
        }
        if *tx > n || *ty > m {
            return Err(format!("move target outside the grid: {}", ctx));
        }
        if !diag(x, y, *sx, *sy) {
            return Err(format!("start not reachable from ({},{}) by a matching diagonal: {}", x, y, ctx));
        }
        x = *tx;
        y = *ty;
    }
    if !diag(x, y, n, m) {
        return Err(format!("end ({},{}) not reachable from ({},{}) by a matching diagonal; moves {:?}", n, m, x, y, moves));
    }
    Ok(())
}

pub fn run(thorough: bool, _seed: u64) -> Report {
    let l = if thorough { 6 } else { 4 };
    let mut rep = Report::new(
        "patch",
        &format!("all ordered pairs of sequences (repeats allowed) over 3 symbols, length <= {}; each pair checked for the patch round trip and for the assumed myers_unfilled contract", l),
        "exhaustive enumeration; non-trivial = both sequences non-empty and not equal",
    );
    let all = seqs(3, l);
    for a in &all {
        let va = to_vals(a);
        for b in &all {
            let vb = to_vals(b);
            let key = format!("{:?}|{:?}", a, b);
            rep.case(&key, !a.is_empty() && !b.is_empty() && a != b);
            if let Err(w) = check_patch(&va, &vb) {
                rep.fail(&format!("patch:{}", key), json!({"kind": "patch", "a": va, "b": vb}), &w);
            }
            if let Err(w) = check_myers(&va, &vb) {
                rep.fail(&format!("myers:{}", key), json!({"kind": "myers", "a": va, "b": vb}), &w);
            }
        }
    }
    rep
}

pub fn replay(case: &Value) -> Value {
    let a = case["input"]["a"].as_array().cloned().unwrap_or_default();
    let b = case["input"]["b"].as_array().cloned().unwrap_or_default();
    let r = if case["input"]["kind"] == "myers" { check_myers(&a, &b) } else { check_patch(&a, &b) };
    match r {
        Ok(()) => json!({"reproduced": false}),
        Err(w) => json!({"reproduced": true, "what": w}),
    }
}
