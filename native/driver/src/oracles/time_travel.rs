//! C14 through the PUBLIC API: `reload_until`, `Melda::new_until`, `reload`, `get_anchors`, `get_value(uuid, Some(rev))`,
//! `get_parent_revision`, `get_all_objects`, `get_winner`, `get_conflicting`, `in_conflict`, `read(None)`.
//! Property: reloading a replica up to a chosen set of blocks shows exactly the state determined by those blocks and
//! their ancestors, identical to what the replica showed when those blocks were its heads, and a plain reload
//! afterwards returns to the latest state.  Every revision that belongs to the loaded history stays retrievable with
//! the same value and the same parent, however much history has accumulated since.
//!
//! Snapshot (taken whenever a replica's heads change): heads = get_anchors(); state = all objects, winner and
//! conflicting revisions of every object, anchors, read(None); known = for every (object, revision) seen so far as a
//! winner or conflicting revision: get_value(object, Some(revision)) and get_parent_revision(object, revision).
//! "X shows snapshot S" = state(X) == S.state and every S.known entry reads back with the same value and parent.
//!
//! linear:<script>@<i>   one replica, k commits of documents with two tracked objects (updated, deleted, re-created),
//!     a title, and ONE flattened array (append / remove first / reverse / change an item; single writer, so array
//!     edit-script chains are time-travelled without any conflict).  Script s0 is fixed, the others are generated
//!     from the seed (two mutations per step).  After the last commit, for every step i:
//!     on the authoring replica reload_until(heads_i) is Ok and shows snapshot i, again (idempotent), reload() shows
//!     the latest snapshot; there and back (i, j, i); a FRESH replica on the same adapter: reload_until(heads_i) shows
//!     snapshot i (steps visited from the newest to the oldest), then reload() shows the latest; Melda::new_until(adapter,
//!     heads_i) shows snapshot i.  Steps 1..k-3 have at least 3 later commits on top.
//! branch:<variant>@<snapshot>   A commits c0; B melds A; A commits a1, a2 (array + object edits through update());
//!     B commits b1, b2 (plain objects through update_object / create_object; variant "conflict": also o1, which A
//!     edits too; "conflict-delete": B deletes o1) — B never touches the array; A melds B + refresh (heads {a2,b2});
//!     B melds A + refresh; A commits the merge successor m; B melds A + refresh.  A third replica T melds A (holds all
//!     files): for every snapshot taken on A or B (c0, a1, a2, b1, b2, the two-element head set after each meld, m)
//!     T.reload_until(heads) shows that snapshot; finally T.reload() shows A's latest.  Thorough repeats this on A and B.
//!     Variant uneven: B's branch has one block, A's two (parents of the merge at different depths); two-origins: B
//!     starts independently (a second parent-less block), the histories are joined by the meld.
//!     Variants deep-*: two more commits c1, c2 BEFORE the fork and two more (m2, m3) after the merge, so that the walk
//!     back from a merge meets the fork block twice while older blocks are still to be applied.
//! arrayconf:<variant>@<target>   A and B edit the same flattened arrays concurrently (move: A moves b, B moves a from
//!     inbox♭ to trash♭; append: both append; mixed: A moves, B appends); ONE long-lived replica X melds both and READS
//!     while the arrays have two leaves, then travels A-head, B-head, both-heads, origin (twice, in different orders), each
//!     showing exactly the snapshot taken on the authoring replica (both-heads: the one X showed itself), then reload();
//!     then X commits during the conflict (the arrays get resolved), and the tour is repeated including the new head, also
//!     on a fresh replica on X's storage.
//! guard:<name>   staged (reload_until / reload with staged changes is Err, stage(), has_staging(), read(None)
//!     untouched), unknown-block (Err), missing-pack (the pack of block j removed from storage: reload_until(heads_j) and
//!     reload_until(heads_k) are Err; reload() then shows snapshot j-1, reload_until(heads_{j-1}) still works),
//!     empty-anchors (reload_until({}) == reload(), also from a travelled state); after every Err a plain reload()
//!     shows the latest state of the intact, causally complete blocks.
//! Every case runs guarded in a worker thread under a 10 s watchdog (`hang:` prefix).
use super::orch::{self, Dyn, Out, Rng};
use super::FailureClasses;
use crate::Report;
use melda::melda::{DeltaId, Melda};
use serde_json::{json, Map, Value};
use std::collections::{BTreeMap, BTreeSet};

const F: &str = "\u{266D}";

#[derive(Clone)]
struct Model {
    title: u32,
    o1: Option<i64>,
    o2: Option<i64>,
    items: Vec<(String, i64)>,
    next_item: u32,
}

impl Model {
    fn new() -> Model {
        Model { title: 1, o1: Some(1), o2: Some(1), items: vec![("i1".into(), 1), ("i2".into(), 2)], next_item: 3 }
    }
    fn doc(&self) -> Map<String, Value> {
        let mut m = Map::new();
        m.insert("title".into(), json!(format!("t{}", self.title)));
        if let Some(v) = self.o1 {
            m.insert(format!("a{}", F), json!({"_id": "o1", "v": v}));
        }
        if let Some(v) = self.o2 {
            m.insert(format!("b{}", F), json!({"_id": "o2", "v": v, "s": "x}y"}));
        }
        let list: Vec<Value> = self.items.iter().map(|(id, n)| json!({"_id": id, "n": n})).collect();
        m.insert(format!("list{}", F), Value::Array(list));
        m
    }
    fn append(&mut self) {
        self.items.push((format!("i{}", self.next_item), self.next_item as i64));
        self.next_item += 1;
    }
    /// every mutation changes the document
    fn mutate(&mut self, op: usize, step: usize) {
        match op {
            0 => self.o1 = Some(self.o1.map(|v| v + 1).unwrap_or(100 + step as i64)),
            1 => self.title += 1,
            2 => self.append(),
            3 => {
                if self.items.is_empty() {
                    self.append()
                } else {
                    self.items.remove(0);
                }
            }
            4 => {
                if self.items.len() < 2 {
                    self.append()
                } else {
                    self.items.reverse()
                }
            }
            5 => self.o2 = if self.o2.is_some() { None } else { Some(50 + step as i64) },
            6 => match self.items.last_mut() {
                Some(it) => it.1 += 10,
                None => self.append(),
            },
            _ => self.o1 = if self.o1.is_some() { None } else { Some(200 + step as i64) },
        }
    }
}

const N_OPS: usize = 8;

/// mutations of steps 2..k (step 1 commits the initial document)
fn script(idx: usize, k: usize, seed: u64) -> Vec<Vec<usize>> {
    if idx == 0 {
        // update + append; delete o2 + remove; reverse + title; re-create o2 + append; update + item change; delete o1 + remove
        let fixed = vec![vec![0, 2], vec![5, 3], vec![4, 1], vec![5, 2], vec![0, 6], vec![7, 3], vec![7, 4], vec![2, 6]];
        return fixed.into_iter().take(k - 1).collect();
    }
    let mut rng = Rng::new(seed.wrapping_mul(1000).wrapping_add(idx as u64));
    (1..k)
        .map(|_| {
            let a = rng.below(N_OPS);
            let mut b = rng.below(N_OPS);
            if b == a {
                b = (b + 1) % N_OPS;
            }
            vec![a, b]
        })
        .collect()
}

type Known = BTreeMap<(String, String), (Value, Value)>;

#[derive(Clone)]
struct Snapshot {
    name: String,
    heads: BTreeSet<DeltaId>,
    state: Value,
    known: Known,
}

fn learn(m: &Melda, known: &mut Known) {
    for o in orch::g(|| m.get_all_objects()).unwrap_or_default() {
        let mut revs: Vec<String> = vec![];
        if let Ok(Ok(w)) = orch::g(|| m.get_winner(&o)) {
            revs.push(w);
        }
        if let Ok(Ok(c)) = orch::g(|| m.get_conflicting(&o)) {
            revs.extend(c);
        }
        for r in revs {
            if !known.contains_key(&(o.clone(), r.clone())) {
                let v = orch::res(orch::g(|| m.get_value(&o, Some(&r)).map(Value::Object)));
                let p = orch::res(orch::g(|| m.get_parent_revision(&o, &r).map(|x| x.map(Value::from).unwrap_or(Value::Null))));
                known.insert((o.clone(), r), (v, p));
            }
        }
    }
}

fn snapshot(m: &Melda, name: &str, known: &mut Known) -> Result<Snapshot, String> {
    learn(m, known);
    let heads = orch::g(|| m.get_anchors()).map_err(|p| format!("panic in get_anchors: {}", p))?;
    Ok(Snapshot { name: name.to_string(), heads, state: orch::state(m), known: known.clone() })
}

/// does `m` show snapshot `s`?  failed checks are appended to `bad`, prefixed with `ctx`
fn shows(m: &Melda, s: &Snapshot, ctx: &str, bad: &mut Vec<String>) {
    let st = orch::state(m);
    if let Some(d) = orch::first_difference(&st, &s.state, &orch::STATE_KEYS) {
        bad.push(format!("{}: state differs from snapshot {}; {}", ctx, s.name, d));
        return;
    }
    for ((o, r), (v, p)) in &s.known {
        let v2 = orch::res(orch::g(|| m.get_value(o, Some(r)).map(Value::Object)));
        if &v2 != v {
            bad.push(format!("{}: get_value({}, {}) is {} but was {} at snapshot {}", ctx, o, r, v2, v, s.name));
            return;
        }
        let p2 = orch::res(orch::g(|| m.get_parent_revision(o, r).map(|x| x.map(Value::from).unwrap_or(Value::Null))));
        if &p2 != p {
            bad.push(format!("{}: get_parent_revision({}, {}) is {} but was {} at snapshot {}", ctx, o, r, p2, p, s.name));
            return;
        }
    }
}

fn heads_str(h: &BTreeSet<DeltaId>) -> String {
    h.iter().map(|d| format!("{}-{}…", d.index(), &d.digest()[..6.min(d.digest().len())])).collect::<Vec<String>>().join(",")
}

/// reload_until(heads of s) must be Ok and show s
fn travel(m: &Melda, s: &Snapshot, ctx: &str, bad: &mut Vec<String>) {
    match orch::g(|| m.reload_until(&s.heads)) {
        Ok(Ok(())) => shows(m, s, ctx, bad),
        Ok(Err(e)) => bad.push(format!("{}: reload_until({{{}}}) is Err({})", ctx, heads_str(&s.heads), e)),
        Err(p) => bad.push(format!("{}: panic: reload_until({{{}}}): {}", ctx, heads_str(&s.heads), p.lines().next().unwrap_or(""))),
    }
}

fn back_to_latest(m: &Melda, latest: &Snapshot, ctx: &str, bad: &mut Vec<String>) {
    match orch::g(|| m.reload()) {
        Ok(Ok(())) => shows(m, latest, &format!("{} then reload()", ctx), bad),
        Ok(Err(e)) => bad.push(format!("{}: reload() is Err({})", ctx, e)),
        Err(p) => bad.push(format!("{}: panic: reload(): {}", ctx, p.lines().next().unwrap_or(""))),
    }
}

fn commit_one(m: &Melda, what: &str, info: Option<Map<String, Value>>) -> Result<(), String> {
    match orch::ge(&format!("{}: commit", what), || m.commit(info))? {
        Some(_) => Ok(()),
        None => Err(format!("{}: commit returned Ok(None)", what)),
    }
}

/// builds the linear history; returns (adapter, authoring replica, snapshots 1..=k)
fn build_linear(ad: &Dyn, sc: &[Vec<usize>]) -> Result<(Melda, Vec<Snapshot>), String> {
    let m = orch::open(ad)?;
    let mut model = Model::new();
    let mut known = Known::new();
    let mut snaps = vec![];
    for step in 1..=(sc.len() + 1) {
        if step > 1 {
            let prev = model.doc();
            for op in &sc[step - 2] {
                model.mutate(*op, step);
            }
            if model.doc() == prev {
                model.mutate(1, step); // the two mutations cancelled each other: change the title instead
            }
        }
        orch::ge(&format!("step {}: update", step), || m.update(model.doc()))?;
        commit_one(&m, &format!("step {}", step), if step % 2 == 0 { Some(orch::obj(json!({"step": step}))) } else { None })?;
        snaps.push(snapshot(&m, &format!("{}", step), &mut known)?);
    }
    Ok((m, snaps))
}

/// per step: failed checks
fn linear_script(sc: &[Vec<usize>], all_pairs: bool) -> Result<Vec<Vec<String>>, String> {
    let ad = orch::mem();
    let (m, snaps) = build_linear(&ad, sc)?;
    let k = snaps.len();
    let latest = snaps[k - 1].clone();
    let mut bad: Vec<Vec<String>> = vec![vec![]; k];
    for i in 0..k {
        let later = k - 1 - i;
        let ctx = format!("authoring replica, {} later commit(s)", later);
        travel(&m, &snaps[i], &ctx, &mut bad[i]);
        travel(&m, &snaps[i], &format!("{}, second reload_until", ctx), &mut bad[i]);
        back_to_latest(&m, &latest, &ctx, &mut bad[i]);
    }
    for i in 0..k {
        let js: Vec<usize> = if all_pairs { (0..k).filter(|j| *j != i).collect() } else { vec![k - 1 - i].into_iter().filter(|j| *j != i).collect() };
        for j in js {
            let ctx = format!("there and back {}→{}→{}", i + 1, j + 1, i + 1);
            travel(&m, &snaps[i], &ctx, &mut bad[i]);
            travel(&m, &snaps[j], &ctx, &mut bad[i]);
            travel(&m, &snaps[i], &ctx, &mut bad[i]);
        }
    }
    back_to_latest(&m, &latest, "authoring replica at the end", &mut bad[k - 1]);
    match orch::open(&ad) {
        Err(e) => bad[k - 1].push(format!("fresh replica on the same adapter: {}", e)),
        Ok(f) => {
            shows(&f, &latest, "fresh replica on the same adapter", &mut bad[k - 1]);
            for i in (0..k).rev() {
                travel(&f, &snaps[i], "fresh replica on the same adapter", &mut bad[i]);
            }
            back_to_latest(&f, &latest, "fresh replica", &mut bad[k - 1]);
        }
    }
    for i in 0..k {
        let (a, h) = (ad.clone(), snaps[i].heads.clone());
        match orch::g(move || Melda::new_until(a, &h)) {
            Ok(Ok(n)) => shows(&n, &snaps[i], "Melda::new_until", &mut bad[i]),
            Ok(Err(e)) => bad[i].push(format!("Melda::new_until({{{}}}) is Err({})", heads_str(&snaps[i].heads), e)),
            Err(p) => bad[i].push(format!("panic: Melda::new_until: {}", p.lines().next().unwrap_or(""))),
        }
    }
    Ok(bad)
}

// ------------------------------------------------------------------------------------------ branching

const VARIANTS: [&str; 8] = ["disjoint", "conflict", "deep-disjoint", "deep-conflict", "uneven", "two-origins", "deep-uneven", "conflict-delete"];

fn sync(dst: &mut Melda, src: &Melda, what: &str) -> Result<(), String> {
    orch::ge(&format!("{}: meld", what), || dst.meld(src))?;
    orch::ge(&format!("{}: refresh", what), || dst.refresh())
}

/// returns the snapshots (in recording order) and the three replicas A, B, T (T holds all files)
fn build_branch(variant: &str) -> Result<(Vec<Snapshot>, Melda, Melda, Melda), String> {
    let (ad_a, ad_b, ad_t) = (orch::mem(), orch::mem(), orch::mem());
    let mut a = orch::open(&ad_a)?;
    let mut b = orch::open(&ad_b)?;
    let (mut ka, mut kb) = (Known::new(), Known::new());
    let mut snaps = vec![];
    let mut model = Model::new();
    orch::ge("A.update(c0)", || a.update(model.doc()))?;
    commit_one(&a, "c0", None)?;
    snaps.push(snapshot(&a, "A:c0", &mut ka)?);
    let deep = variant.starts_with("deep-");
    let variant = variant.trim_start_matches("deep-");
    if deep {
        // older ancestors below the fork point: the walk back from a merge meets the fork block twice while
        // c1 and c0 are still to be applied
        for (n, ops) in [(1, [1usize, 2usize]), (2, [3, 0])] {
            for op in ops {
                model.mutate(op, n + 10);
            }
            orch::ge("A.update", || a.update(model.doc()))?;
            commit_one(&a, &format!("c{}", n), None)?;
            snaps.push(snapshot(&a, &format!("A:c{}", n), &mut ka)?);
        }
    }
    let uneven = variant == "uneven";
    if variant == "two-origins" {
        // B starts independently: a second parent-less block, its own root object and objects
        let mut q = Map::new();
        q.insert("title".into(), json!("started elsewhere"));
        q.insert(format!("qa{}", F), json!({"_id": "q1", "v": 1}));
        orch::ge("B.update(own origin)", || b.update(q))?;
        commit_one(&b, "b0", None)?;
        snaps.push(snapshot(&b, "B:b0", &mut kb)?);
    } else {
        sync(&mut b, &a, "B takes c0")?;
        snaps.push(snapshot(&b, "B:c0", &mut kb)?);
    }
    // A: a1, a2 (array and o1)
    for (n, ops) in [(1, [0usize, 2usize]), (2, [4, 6])] {
        for op in ops {
            model.mutate(op, n + 1);
        }
        orch::ge("A.update", || a.update(model.doc()))?;
        commit_one(&a, &format!("a{}", n), None)?;
        snaps.push(snapshot(&a, &format!("A:a{}", n), &mut ka)?);
    }
    // B: b1, b2 (plain objects only)
    orch::ge("B.update_object(o2)", || b.update_object("o2", orch::obj(json!({"v": 21, "s": "x}y"}))))?;
    orch::ge("B.create_object(o3)", || b.create_object("o3", orch::obj(json!({"k": 1}))))?;
    if !uneven {
        // (uneven: B's branch has ONE block, A's has two — the merge's parents are at different depths)
        commit_one(&b, "b1", Some(orch::obj(json!({"who": "B"}))))?;
        snaps.push(snapshot(&b, "B:b1", &mut kb)?);
    }
    orch::ge("B.update_object(o2)", || b.update_object("o2", orch::obj(json!({"v": 22, "s": "x}y"}))))?;
    match variant {
        "conflict" => {
            orch::ge("B.update_object(o1)", || b.update_object("o1", orch::obj(json!({"v": 77}))))?;
        }
        "conflict-delete" => {
            orch::ge("B.delete_object(o1)", || b.delete_object("o1"))?;
        }
        _ => {}
    }
    commit_one(&b, "b2", None)?;
    snaps.push(snapshot(&b, "B:b2", &mut kb)?);
    sync(&mut a, &b, "A melds B")?;
    snaps.push(snapshot(&a, "A:meld", &mut ka)?);
    sync(&mut b, &a, "B melds A")?;
    snaps.push(snapshot(&b, "B:meld", &mut kb)?);
    // no array may be in conflict before A commits again
    let conflicts = orch::g(|| a.in_conflict()).map_err(|p| format!("panic in in_conflict: {}", p))?;
    if conflicts.iter().any(|o| o.starts_with('^')) {
        return Err(format!("driver: an array descriptor is in conflict: {:?}", conflicts));
    }
    model.mutate(2, 9);
    model.mutate(1, 9);
    orch::ge("A.update(m)", || a.update(model.doc()))?;
    commit_one(&a, "m", Some(Map::new()))?;
    snaps.push(snapshot(&a, "A:m", &mut ka)?);
    if deep {
        // blocks after the merge
        for (n, ops) in [(2, [0usize, 3usize]), (3, [6, 1])] {
            for op in ops {
                model.mutate(op, n + 20);
            }
            orch::ge("A.update", || a.update(model.doc()))?;
            commit_one(&a, &format!("m{}", n), None)?;
            snaps.push(snapshot(&a, &format!("A:m{}", n), &mut ka)?);
        }
    }
    sync(&mut b, &a, "B melds A (m)")?;
    snaps.push(snapshot(&b, "B:m", &mut kb)?);
    let mut t = orch::open(&ad_t)?;
    sync(&mut t, &a, "T melds A")?;
    Ok((snaps, a, b, t))
}

fn branch_variant(variant: &str, also_on_authors: bool) -> Result<Vec<(String, Vec<String>)>, String> {
    let (snaps, a, b, t) = build_branch(variant)?;
    let latest = snaps.iter().rev().find(|s| s.name.starts_with("A:")).cloned().ok_or("driver: no snapshot of A")?;
    let mut out: Vec<(String, Vec<String>)> = vec![];
    for s in &snaps {
        let mut bad = vec![];
        travel(&t, s, "third replica holding all files", &mut bad);
        travel(&t, s, "third replica, second reload_until", &mut bad);
        if also_on_authors {
            // A and B hold all files by now as well; the known revisions of the other replica's snapshots are
            // revisions of the same history
            travel(&a, s, "replica A at the end", &mut bad);
            travel(&b, s, "replica B at the end", &mut bad);
        }
        out.push((s.name.clone(), bad));
    }
    // state only: the sets of revisions observed on A and on B differ, the state after a full reload does not
    let mut tail = vec![];
    let latest_state_only = Snapshot { known: Known::new(), ..latest.clone() };
    back_to_latest(&t, &latest_state_only, "third replica at the end", &mut tail);
    shows(&t, &latest, "third replica after reload()", &mut tail);
    if also_on_authors {
        back_to_latest(&a, &latest, "replica A at the end", &mut tail);
        let b_latest = snaps.iter().find(|s| s.name == "B:m").cloned().ok_or("driver: no snapshot B:m")?;
        back_to_latest(&b, &b_latest, "replica B at the end", &mut tail);
    }
    out.push(("latest".to_string(), tail));
    Ok(out)
}

// ------------------------------------------------------------------------------------------ array conflict

const ARRAY_VARIANTS: [&str; 3] = ["move", "append", "mixed"];

fn mail(inbox: &[&str], trash: &[&str]) -> Map<String, Value> {
    let arr = |ids: &[&str]| Value::Array(ids.iter().map(|i| json!({"_id": i, "subject": format!("mail {}", i)})).collect());
    let mut m = Map::new();
    m.insert("title".into(), json!("mailbox"));
    m.insert(format!("inbox{}", F), arr(inbox));
    m.insert(format!("trash{}", F), arr(trash));
    m
}

/// A and B edit the same flattened arrays concurrently; ONE long-lived replica X melds both, READS while the arrays have
/// two leaves (the merged order is computed), then travels: A's head alone, B's head alone, both heads, the origin —
/// each must show exactly the snapshot taken on the authoring replica (for both heads: the one X showed itself) —
/// then reload().  `with_commit`: X also commits during the conflict (the arrays get resolved) and travels again.
fn arrayconf_variant(variant: &str, with_commit: bool) -> Result<Vec<(String, Vec<String>)>, String> {
    let mut a = orch::open(&orch::mem())?;
    let mut b = orch::open(&orch::mem())?;
    let (mut ka, mut kb, mut kx) = (Known::new(), Known::new(), Known::new());
    orch::ge("A.update(origin)", || a.update(mail(&["a", "b", "c"], &[])))?;
    commit_one(&a, "origin", None)?;
    let s_o = snapshot(&a, "origin", &mut ka)?;
    sync(&mut b, &a, "B takes the origin")?;
    let _ = snapshot(&b, "B:origin", &mut kb)?;
    let (da, db) = match variant {
        "move" => (mail(&["a", "c"], &["b"]), mail(&["b", "c"], &["a"])),
        "append" => (mail(&["a", "b", "c", "k5"], &[]), mail(&["a", "b", "c", "k6"], &[])),
        _ => (mail(&["a", "c"], &["b"]), mail(&["a", "b", "c", "k6"], &[])),
    };
    orch::ge("A.update", || a.update(da))?;
    commit_one(&a, "A's edit", None)?;
    let s_a = snapshot(&a, "A-head", &mut ka)?;
    orch::ge("B.update", || b.update(db))?;
    commit_one(&b, "B's edit", None)?;
    let s_b = snapshot(&b, "B-head", &mut kb)?;
    let mut x = orch::open(&orch::mem())?;
    orch::ge("X.meld(A)", || x.meld(&a))?;
    orch::ge("X.meld(B)", || x.meld(&b))?;
    orch::ge("X.refresh", || x.refresh())?;
    let conflicts = orch::g(|| x.in_conflict()).map_err(|p| format!("panic in in_conflict: {}", p))?;
    if !conflicts.iter().any(|o| o.starts_with('^')) {
        return Err(format!("driver: no array in conflict on X: {:?}", conflicts));
    }
    orch::ge("X.read", || x.read(None))?; // the merged order is computed (and may be cached) here
    let s_both = snapshot(&x, "both-heads", &mut kx)?;
    let mut out: Vec<(String, Vec<String>)> = vec![];
    let mut tour = |x: &Melda, targets: &[&Snapshot], latest: &Snapshot, tag: &str, out: &mut Vec<(String, Vec<String>)>| {
        for (n, s) in targets.iter().enumerate() {
            let mut bad = vec![];
            travel(x, s, &format!("long-lived replica{}, stop {} of the tour", tag, n + 1), &mut bad);
            // reading again at every stop keeps the caches warm for the next one
            let _ = orch::g(|| x.read(None));
            out.push((format!("{}{}", s.name, tag), bad));
        }
        let mut bad = vec![];
        back_to_latest(x, latest, &format!("long-lived replica{}", tag), &mut bad);
        out.push((format!("reload{}", tag), bad));
    };
    tour(&x, &[&s_a, &s_b, &s_both, &s_o, &s_b, &s_a, &s_both], &s_both, "", &mut out);
    if with_commit {
        orch::ge("X.create_object(note)", || x.create_object("note", orch::obj(json!({"n": 1}))))?;
        commit_one(&x, "X commits during the array conflict", None)?;
        let s_r = snapshot(&x, "resolved", &mut kx)?;
        tour(&x, &[&s_a, &s_both, &s_b, &s_r, &s_o, &s_both, &s_r], &s_r, "+commit", &mut out);
        // a fresh replica on X's storage travels the same way
        let f = Melda::new(x.get_adapter()).map_err(|e| format!("fresh replica on X's storage: {}", e))?;
        tour(&f, &[&s_r, &s_a, &s_b, &s_both], &s_r, "+commit/fresh", &mut out);
    }
    Ok(out)
}

fn arrayconf_cases(variant: &str, with_commit: bool, out: &Out) {
    let input = json!({"family": "arrayconf", "variant": variant, "with_commit": with_commit});
    out.begin(&format!("arrayconf:{}", variant), input.clone());
    match orch::g(|| arrayconf_variant(variant, with_commit)) {
        Ok(Ok(per)) => {
            // the tours visit a target more than once: one case per target, all its visits
            let mut merged: Vec<(String, Vec<String>)> = vec![];
            for (name, bad) in per {
                match merged.iter_mut().find(|(n, _)| *n == name) {
                    Some((_, b)) => b.extend(bad),
                    None => merged.push((name, bad)),
                }
            }
            for (name, bad) in merged {
                let id = format!("arrayconf:{}@{}", variant, name);
                out.case(&id, true);
                book(out, &id, &input, "arrayconf", &bad);
            }
        }
        Ok(Err(e)) => {
            let id = format!("arrayconf:{}@setup", variant);
            out.case(&id, true);
            book(out, &id, &input, "setup", &[format!("the history could not be built: {}", e)]);
        }
        Err(p) => {
            let id = format!("arrayconf:{}@setup", variant);
            out.case(&id, true);
            book(out, &id, &input, "panic", &[format!("panic: {}", p.lines().next().unwrap_or(""))]);
        }
    }
}

// ------------------------------------------------------------------------------------------ guards

const GUARDS: [&str; 4] = ["staged", "unknown-block", "missing-pack", "empty-anchors"];

fn guard_case(name: &str) -> Result<Vec<String>, String> {
    let mut bad = vec![];
    let sc = script(0, 5, 0);
    let map = std::sync::Arc::new(std::sync::Mutex::new(BTreeMap::new()));
    let ad = orch::dynof(orch::StoreAdapter { map: map.clone() });
    let (m, snaps) = build_linear(&ad, &sc)?;
    let latest = snaps[snaps.len() - 1].clone();
    let expect_err = |r: Result<anyhow::Result<()>, String>, what: &str, bad: &mut Vec<String>| match r {
        Ok(Err(_)) => {}
        Ok(Ok(())) => bad.push(format!("{} returned Ok", what)),
        Err(p) => bad.push(format!("panic: {}: {}", what, p.lines().next().unwrap_or(""))),
    };
    match name {
        "staged" => {
            let mut model = Model::new();
            model.mutate(1, 99);
            model.mutate(2, 99);
            orch::ge("update (staged)", || m.update(model.doc()))?;
            let before = (orch::res(orch::g(|| m.stage().map(|s| s.unwrap_or(Value::Null)))), orch::state(&m), orch::g(|| m.has_staging()).ok());
            if before.2 != Some(true) {
                return Err("driver: nothing staged".into());
            }
            let empty: BTreeSet<DeltaId> = BTreeSet::new();
            let calls: Vec<(&str, Box<dyn Fn() -> Result<anyhow::Result<()>, String> + '_>)> = vec![
                ("reload_until(heads_1) with staged changes", Box::new(|| orch::g(|| m.reload_until(&snaps[0].heads)))),
                ("reload_until(latest heads) with staged changes", Box::new(|| orch::g(|| m.reload_until(&latest.heads)))),
                ("reload_until({}) with staged changes", Box::new(|| orch::g(|| m.reload_until(&empty)))),
                ("reload() with staged changes", Box::new(|| orch::g(|| m.reload()))),
            ];
            for (what, call) in &calls {
                expect_err(call(), what, &mut bad);
                let after = (orch::res(orch::g(|| m.stage().map(|s| s.unwrap_or(Value::Null)))), orch::state(&m), orch::g(|| m.has_staging()).ok());
                if after.0 != before.0 {
                    bad.push(format!("{}: stage() changed", what));
                }
                if after.2 != Some(true) {
                    bad.push(format!("{}: has_staging() is no longer true", what));
                }
                if let Some(d) = orch::first_difference(&after.1, &before.1, &orch::STATE_KEYS) {
                    bad.push(format!("{}: visible state changed; {}", what, d));
                }
            }
            drop(calls);
            // the staged edit can still be committed and is then the latest state
            if let Err(e) = commit_one(&m, "commit of the kept stage", None) {
                bad.push(format!("the staged changes did not survive the refused calls: {}", e));
                return Ok(bad);
            }
            let mut known = latest.known.clone();
            let newest = snapshot(&m, "after committing the kept stage", &mut known)?;
            travel(&m, &snaps[1], "after committing the kept stage", &mut bad);
            back_to_latest(&m, &newest, "after committing the kept stage", &mut bad);
        }
        "unknown-block" => {
            for (what, id) in [
                ("reload_until({unknown origin id})", DeltaId::new("00ff00ff00ff00ff00ff00ff00ff00ff00ff00ff00ff00ff00ff00ff00ff00ff".to_string())),
                ("reload_until({unknown id with a large index})", DeltaId::new_from_anchors("ab".repeat(32), &latest.heads)),
            ] {
                expect_err(orch::g(|| m.reload_until(&BTreeSet::from([id.clone()]))), what, &mut bad);
                back_to_latest(&m, &latest, what, &mut bad);
                let mut mixed = snaps[1].heads.clone();
                mixed.insert(id);
                expect_err(orch::g(|| m.reload_until(&mixed)), &format!("{} together with a known head", what), &mut bad);
                back_to_latest(&m, &latest, what, &mut bad);
            }
        }
        "missing-pack" => {
            let j = 2; // third block
            let head_j = snaps[j].heads.iter().next().cloned().ok_or("driver: no head")?;
            let d = orch::ge("get_delta", || m.get_delta(&head_j))?.ok_or("driver: get_delta(head) is None")?;
            let packs = d.packs.clone().unwrap_or_default();
            if packs.is_empty() {
                return Err("driver: the chosen block lists no pack".into());
            }
            for p in &packs {
                map.lock().unwrap().remove(&format!("{}.pack", p));
            }
            expect_err(orch::g(|| m.reload_until(&snaps[j].heads)), "reload_until(heads of the block whose pack is gone)", &mut bad);
            back_to_latest(&m, &snaps[j - 1], "pack of block 3 removed", &mut bad);
            expect_err(orch::g(|| m.reload_until(&latest.heads)), "reload_until(heads of a descendant of the block whose pack is gone)", &mut bad);
            back_to_latest(&m, &snaps[j - 1], "pack of block 3 removed (descendant)", &mut bad);
            travel(&m, &snaps[j - 1], "pack of block 3 removed, block 2", &mut bad);
            travel(&m, &snaps[0], "pack of block 3 removed, block 1", &mut bad);
            back_to_latest(&m, &snaps[j - 1], "pack of block 3 removed, at the end", &mut bad);
            let (a, h) = (ad.clone(), snaps[j].heads.clone());
            match orch::g(move || Melda::new_until(a, &h)) {
                Ok(Err(_)) => {}
                Ok(Ok(_)) => bad.push("Melda::new_until(heads of the block whose pack is gone) returned Ok".into()),
                Err(p) => bad.push(format!("panic: Melda::new_until: {}", p.lines().next().unwrap_or(""))),
            }
        }
        _ => {
            match orch::g(|| m.reload_until(&BTreeSet::new())) {
                Ok(Ok(())) => shows(&m, &latest, "reload_until({})", &mut bad),
                other => bad.push(format!("reload_until({{}}) is {:?}", other.map(|r| r.map_err(|e| e.to_string())))),
            }
            travel(&m, &snaps[0], "before reload_until({})", &mut bad);
            match orch::g(|| m.reload_until(&BTreeSet::new())) {
                Ok(Ok(())) => shows(&m, &latest, "reload_until({}) from a travelled state", &mut bad),
                other => bad.push(format!("reload_until({{}}) from a travelled state is {:?}", other.map(|r| r.map_err(|e| e.to_string())))),
            }
            let a = ad.clone();
            match orch::g(move || Melda::new_until(a, &BTreeSet::new())) {
                Ok(Ok(n)) => shows(&n, &latest, "Melda::new_until({})", &mut bad),
                Ok(Err(e)) => bad.push(format!("Melda::new_until({{}}) is Err({})", e)),
                Err(p) => bad.push(format!("panic: Melda::new_until({{}}): {}", p.lines().next().unwrap_or(""))),
            }
        }
    }
    Ok(bad)
}

// ------------------------------------------------------------------------------------------ driver

fn book(out: &Out, id: &str, input: &Value, class: &str, bad: &[String]) {
    if bad.is_empty() {
        return;
    }
    let what = bad.join(" || ");
    eprintln!("[time_travel] FAIL {} | {}", id, what);
    out.fail(class, id, input.clone(), &what);
}

fn linear_cases(idx: usize, k: usize, seed: u64, all_pairs: bool, out: &Out) {
    let name = format!("s{}k{}", idx, k);
    let input = json!({"family": "linear", "script": idx, "k": k, "seed": seed, "all_pairs": all_pairs});
    out.begin(&format!("linear:{}", name), input.clone());
    let sc = script(idx, k, seed);
    match orch::g(|| linear_script(&sc, all_pairs)) {
        Ok(Ok(per_step)) => {
            for (i, bad) in per_step.iter().enumerate() {
                let id = format!("linear:{}@{}", name, i + 1);
                out.case(&id, true);
                book(out, &id, &input, "linear", bad);
            }
        }
        Ok(Err(e)) => {
            let id = format!("linear:{}@0", name);
            out.case(&id, true);
            book(out, &id, &input, "setup", &[format!("the history could not be built (script {:?}): {}", sc, e)]);
        }
        Err(p) => {
            let id = format!("linear:{}@0", name);
            out.case(&id, true);
            book(out, &id, &input, "panic", &[format!("panic: {}", p.lines().next().unwrap_or(""))]);
        }
    }
}

fn branch_cases(variant: &str, authors: bool, out: &Out) {
    let input = json!({"family": "branch", "variant": variant, "authors": authors});
    out.begin(&format!("branch:{}", variant), input.clone());
    match orch::g(|| branch_variant(variant, authors)) {
        Ok(Ok(per)) => {
            for (sname, bad) in per {
                let id = format!("branch:{}@{}", variant, sname);
                out.case(&id, true);
                book(out, &id, &input, "branch", &bad);
            }
        }
        Ok(Err(e)) => {
            let id = format!("branch:{}@setup", variant);
            out.case(&id, true);
            book(out, &id, &input, "setup", &[format!("the history could not be built: {}", e)]);
        }
        Err(p) => {
            let id = format!("branch:{}@setup", variant);
            out.case(&id, true);
            book(out, &id, &input, "panic", &[format!("panic: {}", p.lines().next().unwrap_or(""))]);
        }
    }
}

fn guard_cases(name: &str, out: &Out) {
    let id = format!("guard:{}", name);
    let input = json!({"family": "guard", "guard": name});
    out.begin(&id, input.clone());
    out.case(&id, true);
    match orch::g(|| guard_case(name)) {
        Ok(Ok(bad)) => book(out, &id, &input, "guard", &bad),
        Ok(Err(e)) => book(out, &id, &input, "setup", &[format!("the scenario could not be built: {}", e)]),
        Err(p) => book(out, &id, &input, "panic", &[format!("panic: {}", p.lines().next().unwrap_or(""))]),
    }
}

fn work(thorough: bool, seed: u64, out: &Out) {
    let (scripts, k) = if thorough { (40, 7) } else { (6, 5) };
    for idx in 0..scripts {
        linear_cases(idx, k, seed, thorough, out);
    }
    if thorough {
        for idx in 0..10 {
            linear_cases(idx, 9, seed, false, out);
        }
    }
    for v in VARIANTS.iter().take(if thorough { 8 } else { 6 }) {
        branch_cases(v, thorough, out);
    }
    for v in ARRAY_VARIANTS {
        arrayconf_cases(v, true, out);
    }
    for gname in GUARDS {
        guard_cases(gname, out);
    }
}

pub fn run(thorough: bool, seed: u64) -> Report {
    let mut rep = Report::new(
        "time_travel",
        if thorough {
            "linear: 40 scripts (s0 fixed, 39 seeded; two mutations per step out of update o1, title, append / remove first / reverse / change an item of the single-writer flattened array, delete or re-create o2, delete or re-create o1) of k = 7 commits with every there-and-back pair (i, j, i), plus 10 scripts of k = 9; per step: authoring replica (reload_until twice, reload), fresh replica on the same adapter, Melda::new_until; branch: variants disjoint / conflict / deep-disjoint / deep-conflict / uneven / two-origins / deep-uneven / conflict-delete (deep: two older commits below the fork, two blocks after the merge), every snapshot checked on a third replica holding all files and on A and B; arrayconf: variants move / append / mixed on one long-lived replica, before and after a commit made during the array conflict; 4 guard cases"
        } else {
            "linear: 6 scripts (s0 fixed, 5 seeded; two mutations per step out of update o1, title, append / remove first / reverse / change an item of the single-writer flattened array, delete or re-create o2, delete or re-create o1) of k = 5 commits, there-and-back (i, k+1-i, i); per step: authoring replica (reload_until twice, reload), fresh replica on the same adapter, Melda::new_until; branch: variants disjoint / conflict / deep-disjoint / deep-conflict / uneven / two-origins (deep: two older commits below the fork, two blocks after the merge), every snapshot (c0.., a1, a2, b1, b2, the two-element head sets after each meld, m..) checked on a third replica holding all files; arrayconf: variants move / append / mixed on one long-lived replica, before and after a commit made during the array conflict; 4 guard cases"
        },
        "enumeration of scripts x steps, branch variants x snapshots, guards; one case per script and step / variant and snapshot / guard, each combining all its checks; every case non-trivial; guarded, 10 s watchdog",
    );
    if std::env::var_os("RAYON_NUM_THREADS").is_none() {
        std::env::set_var("RAYON_NUM_THREADS", "2");
    }
    let mut classes = FailureClasses::new(2);
    orch::supervise(&mut rep, &mut classes, move |out| work(thorough, seed, out));
    classes.summary("time_travel");
    rep
}

pub fn replay(case: &Value) -> Value {
    let inp = case["input"].clone();
    let fails = orch::replay_collect(move |out| match inp["family"].as_str() {
        Some("linear") => linear_cases(
            inp["script"].as_u64().unwrap_or(0) as usize,
            (inp["k"].as_u64().unwrap_or(5) as usize).clamp(2, 12),
            inp["seed"].as_u64().unwrap_or(0),
            inp["all_pairs"].as_bool().unwrap_or(false),
            out,
        ),
        Some("branch") => {
            if let Some(v) = VARIANTS.iter().find(|v| Some(**v) == inp["variant"].as_str()) {
                branch_cases(v, inp["authors"].as_bool().unwrap_or(false), out);
            }
        }
        Some("arrayconf") => {
            if let Some(v) = ARRAY_VARIANTS.iter().find(|v| Some(**v) == inp["variant"].as_str()) {
                arrayconf_cases(v, inp["with_commit"].as_bool().unwrap_or(true), out);
            }
        }
        Some("guard") => {
            if let Some(gname) = GUARDS.iter().find(|x| Some(**x) == inp["guard"].as_str()) {
                guard_cases(gname, out);
            }
        }
        _ => {}
    });
    let want = case["case_id"].as_str().unwrap_or("");
    match fails.iter().find(|(id, _)| id == want || (want.starts_with("hang:") && id.starts_with("hang:"))) {
        Some((id, what)) => json!({"reproduced": true, "case_id": id, "what": what}),
        None => json!({"reproduced": false, "other_failures": fails.len()}),
    }
}
