//! C03 / C11 / C13: src/melda.rs `Delta::to_json`, `to_json_string`, `Melda::load_raw_delta`,
//! `Melda::fetch_raw_delta` (private items reached through overlay accessors).
//! For a block built like `commit` builds it (text = to_json_string(), digest = sha256(text),
//! id = DeltaId::new(digest) | new_from_anchors(digest, parents)):
//!   - load_raw_delta(id, parse(text)) is Ok; id/parents/info/packs/changes read back equal     (C03/C13)
//!   - to_json_string() of the loaded block == text, byte for byte                             (C11)
//!   - an id with a wrong index, or computed from a different parent set, is rejected          (C13)
//!   - the text stored under id.key() is fetched back equal; stored under an id with another
//!     digest it is rejected                                                                  (C10)
use super::FailureClasses;
use crate::Report;
use melda::adapter::Adapter;
use melda::melda::{Delta, DeltaId, Melda};
use melda::memoryadapter::MemoryAdapter;
use melda::vf::delta::{delta_changes, make_delta};
use melda::vf::utils::digest_string;
use melda::vf::Revision;
use serde_json::{json, Map, Value};
use std::collections::BTreeSet;
use std::sync::{Arc, RwLock};

const H1: &str = "b94d27b9934d3e08a52e52d7da7dabfac484efe37a5380ee9088f7ace2efcde9";
const H2: &str = "ba7816bf8f01cfea414140de5dae2223b00361a396177a9cb410ff61f20015ad";
const H3: &str = "54564897e73b8babc49d21c5c062987c1edd5bda9bba99ae3e4c810d0cb3afc0";
const UUIDS: [&str; 3] = ["\u{221A}", "^\u{221A}@items\u{266D}", "obj \"}{\\ 1"];
pub const SHAPES: [&str; 5] = ["create", "update", "update2", "delete", "resolve"];

fn change(shape: &str, pos: usize) -> (String, Revision, Option<Revision>) {
    let uuid = UUIDS[pos % 3].to_string();
    let d_new = [H1, H2, "1f600"][pos % 3];
    let root = Revision::new(1, [H3, "e", H2][pos % 3], None);
    let second = Revision::new_updated(H3, &root);
    match shape {
        "create" => (uuid, Revision::new(1, d_new, None), None),
        "update" => (uuid, Revision::new_updated(d_new, &root), Some(root)),
        "update2" => (uuid, Revision::new_updated(d_new, &second), Some(second)),
        "delete" => (uuid, Revision::new_deleted(&second), Some(second)),
        _ => (uuid, Revision::new_resolved(&root), Some(root)),
    }
}

pub fn parent_sets() -> Vec<Vec<String>> {
    vec![
        vec![],
        vec![format!("1-{}", H1)],
        vec![format!("1-{}", H1), format!("2-{}", H2)],
        vec![format!("9-{}", H2), format!("10-{}", H3)],
    ]
}

pub fn infos() -> Vec<Option<Value>> {
    vec![
        None,
        Some(json!({})),
        Some(json!({"author": "é\n\"{}", "n": -3, "f": 1.5})),
        Some(json!({"nested": {"x": [1, {"y": null}], "z": true}, "big": 1e300, "u": "日本 \u{1F600}"})),
        Some(json!({"f": 0.1, "g": -2.5e-7, "\\k\"": [[], {}, "}"]})),
    ]
}

fn parse_ids(v: &[String]) -> Result<BTreeSet<DeltaId>, String> {
    v.iter().map(|s| DeltaId::from(s).map_err(|e| e.to_string())).collect()
}

fn show_changes(c: &Option<Vec<(String, Revision, Option<Revision>)>>) -> String {
    format!(
        "{:?}",
        c.as_ref().map(|v| v.iter().map(|(u, r, p)| (u.clone(), r.to_string(), p.as_ref().map(|x| x.to_string()))).collect::<Vec<_>>())
    )
}

pub fn check(shapes: &[String], parents: &[String], info: &Option<Value>, pack: bool) -> Result<(), String> {
    let (shapes, parents, info) = (shapes.to_vec(), parents.to_vec(), info.clone());
    let r = super::guarded(move || -> Result<(), String> {
        let ad: Box<dyn Adapter> = Box::new(MemoryAdapter::new());
        let ad = Arc::new(RwLock::new(ad));
        let m = Melda::new(ad.clone()).map_err(|e| format!("Melda::new Err({})", e))?;
        let pset = parse_ids(&parents)?;
        let b_parents = if pset.is_empty() { None } else { Some(pset.clone()) };
        let b_info: Option<Map<String, Value>> = info.as_ref().map(|v| v.as_object().unwrap().clone());
        let b_packs = if pack { Some(BTreeSet::from([H3.to_string()])) } else { None };
        let changes: Vec<(String, Revision, Option<Revision>)> = shapes.iter().enumerate().map(|(i, s)| change(s, i)).collect();
        let b_changes = if changes.is_empty() { None } else { Some(changes) };
        let delta: Delta = make_delta(b_parents.clone(), b_info.clone(), b_packs.clone(), b_changes.clone());
        let text = delta.to_json_string().map_err(|e| format!("to_json_string Err({})", e))?;
        let digest = digest_string(&text);
        let id = if pset.is_empty() { DeltaId::new(digest.clone()) } else { DeltaId::new_from_anchors(digest.clone(), &pset) };
        let raw: Map<String, Value> = serde_json::from_str(&text).map_err(|e| format!("block text is not a JSON object: {}", e))?;
        if raw != delta.to_json() {
            return Err("parse(to_json_string()) != to_json()".to_string());
        }
        // C03/C13: read back
        let loaded = m
            .vf_load_raw_delta(&id, raw.clone())
            .map_err(|e| format!("load_raw_delta of a well-formed block {} is Err({})", text, e))?;
        if loaded.id.as_ref() != Some(&id) {
            return Err(format!("loaded id {:?} != {}", loaded.id, id));
        }
        if loaded.parents != b_parents {
            return Err(format!("parents read back as {:?}, written {:?}", loaded.parents, b_parents));
        }
        if loaded.info != b_info {
            return Err(format!("info read back as {:?}, written {:?}", loaded.info, b_info));
        }
        if loaded.packs != b_packs {
            return Err(format!("packs read back as {:?}, written {:?}", loaded.packs, b_packs));
        }
        let lc = delta_changes(&loaded);
        if lc != b_changes {
            return Err(format!("changes read back as {}, written {}", show_changes(&lc), show_changes(&b_changes)));
        }
        // C11: canonical text
        let text2 = loaded.to_json_string().map_err(|e| format!("to_json_string of loaded block Err({})", e))?;
        if text2 != text {
            return Err(format!("re-serialised block differs: {} vs original {}", text2, text));
        }
        // C13: identifier must match the content
        let wrong_index = DeltaId::from(&format!("{}-{}", id.index() + 1, digest)).map_err(|e| e.to_string())?;
        if m.vf_load_raw_delta(&wrong_index, raw.clone()).is_ok() {
            return Err(format!("block accepted under identifier {} with a wrong index (right: {})", wrong_index, id));
        }
        let mut other = pset.clone();
        other.insert(DeltaId::from(&format!("{}-{}", id.index() + 5, H1)).map_err(|e| e.to_string())?);
        let wrong_parents = DeltaId::new_from_anchors(digest.clone(), &other);
        if m.vf_load_raw_delta(&wrong_parents, raw.clone()).is_ok() {
            return Err(format!("block accepted under identifier {} computed from another parent set", wrong_parents));
        }
        if !pset.is_empty() && m.vf_load_raw_delta(&DeltaId::new(digest.clone()), raw.clone()).is_ok() {
            return Err("block with parents accepted under an origin identifier".to_string());
        }
        // C10: fetch verifies the digest
        ad.read().unwrap().write_object(&id.key(), text.as_bytes()).map_err(|e| e.to_string())?;
        match m.vf_fetch_raw_delta(&id) {
            Ok(f) if f == raw => {}
            Ok(_) => return Err("fetch_raw_delta returned a different object".to_string()),
            Err(e) => return Err(format!("fetch_raw_delta of a stored block is Err({})", e)),
        }
        let bogus = DeltaId::from(&format!("{}-{}", id.index(), digest_string("other"))).map_err(|e| e.to_string())?;
        ad.read().unwrap().write_object(&bogus.key(), text.as_bytes()).map_err(|e| e.to_string())?;
        if m.vf_fetch_raw_delta(&bogus).is_ok() {
            return Err("fetch_raw_delta accepted content whose hash differs from the identifier".to_string());
        }
        Ok(())
    });
    match r {
        Ok(x) => x,
        Err(p) => Err(format!("panic: {}", p)),
    }
}

fn shape_seqs(max: usize) -> Vec<Vec<String>> {
    let mut out: Vec<Vec<String>> = vec![vec![]];
    let mut frontier: Vec<Vec<String>> = vec![vec![]];
    for _ in 0..max {
        let mut next = vec![];
        for s in &frontier {
            for sh in SHAPES {
                let mut t = s.clone();
                t.push(sh.to_string());
                next.push(t);
            }
        }
        out.extend(next.iter().cloned());
        frontier = next;
    }
    out
}

pub fn run(thorough: bool, _seed: u64) -> Report {
    let max = if thorough { 4 } else { 3 };
    let mut rep = Report::new(
        "delta_roundtrip",
        &format!(
            "all sequences of <= {} change records over shapes {:?} (uuids incl. root id, an array-descriptor id and one with quote/brace/backslash) x 4 parent sets (none, 1, 2, 2 with indices 9/10) x 5 info values (none, {{}}, escapes, nested/1e300/non-ASCII, floats) x {{no pack, 1 pack}}",
            max, SHAPES
        ),
        "exhaustive product; non-trivial = at least one change record; origin blocks containing an update-shaped record get case ids starting with origin-update:",
    );
    let mut classes = FailureClasses::new(2);
    for shapes in shape_seqs(max) {
        for (pi, parents) in parent_sets().iter().enumerate() {
            for (ii, info) in infos().iter().enumerate() {
                for pack in [false, true] {
                    let key = format!("{}|p{}|i{}|k{}", shapes.join(","), pi, ii, pack as u8);
                    rep.case(&key, !shapes.is_empty());
                    if let Err(w) = check(&shapes, parents, info, pack) {
                        let origin_update = parents.is_empty() && shapes.iter().any(|s| s != "create");
                        let class = if origin_update { "origin-update".to_string() } else { format!("other/{}", w.chars().take(24).collect::<String>()) };
                        let id = format!("{}{}", if origin_update { "origin-update:" } else { "other:" }, key);
                        classes.fail(&mut rep, &class, &id, json!({"shapes": shapes, "parents": parents, "info": info, "pack": pack}), &w);
                    }
                }
            }
        }
    }
    classes.summary("delta_roundtrip");
    rep
}

pub fn replay(case: &Value) -> Value {
    let inp = &case["input"];
    let strs = |v: &Value| -> Vec<String> { v.as_array().map(|a| a.iter().filter_map(|x| x.as_str().map(|s| s.to_string())).collect()).unwrap_or_default() };
    let info = if inp["info"].is_object() { Some(inp["info"].clone()) } else { None };
    match check(&strs(&inp["shapes"]), &strs(&inp["parents"]), &info, inp["pack"].as_bool().unwrap_or(false)) {
        Ok(()) => json!({"reproduced": false}),
        Err(w) => json!({"reproduced": true, "what": w}),
    }
}
