//! C06 (API level): concurrent edits of flattened arrays, seen through update()/commit()/meld()/refresh()/read().
//! Stand-in for utils::unflatten and Melda::read (recursion over serde_json::Value, rayon: outside Verus):
//!   after synchronisation in both directions both replicas read the same document, every element that is present in at
//!   least one of the two concurrent versions appears, and NO element appears twice — neither inside one array nor in two
//!   different arrays (an element that concurrent edits placed in several arrays appears in exactly one of them).
//! No commit is made after the merge (committing with an array in conflict hangs on this version: C08, out of scope).
use crate::Report;
use melda::adapter::Adapter;
use melda::melda::Melda;
use melda::memoryadapter::MemoryAdapter;
use serde_json::{json, Map, Value};
use std::collections::BTreeSet;
use std::sync::{Arc, RwLock};

const TODO: &str = "todo\u{266D}";
const DONE: &str = "done\u{266D}";

fn doc(todo: &[&str], done: &[&str]) -> Map<String, Value> {
    let mk = |ids: &[&str]| Value::from(ids.iter().map(|i| json!({"_id": i, "v": i})).collect::<Vec<Value>>());
    let mut m = Map::new();
    m.insert(TODO.to_string(), mk(todo));
    m.insert(DONE.to_string(), mk(done));
    m
}

fn ids(m: &Map<String, Value>, key: &str) -> Vec<String> {
    m.get(key).and_then(|v| v.as_array()).map(|a| a.iter().filter_map(|x| x.get("_id").and_then(|i| i.as_str()).map(|s| s.to_string())).collect()).unwrap_or_default()
}

type Ver = (Vec<&'static str>, Vec<&'static str>);

fn versions() -> Vec<(&'static str, Ver)> {
    vec![
        ("move-k2-to-done", (vec!["k1", "k3"], vec!["k4", "k2"])),
        ("move-k1-to-done-front", (vec!["k2", "k3"], vec!["k1", "k4"])),
        ("move-k4-to-todo", (vec!["k1", "k2", "k3", "k4"], vec![])),
        ("append-k5", (vec!["k1", "k2", "k3", "k5"], vec!["k4"])),
        ("prepend-k6", (vec!["k6", "k1", "k2", "k3"], vec!["k4"])),
        ("reorder-todo", (vec!["k3", "k1", "k2"], vec!["k4"])),
        ("remove-k2", (vec!["k1", "k3"], vec!["k4"])),
        ("remove-k4-add-k7-done", (vec!["k1", "k2", "k3"], vec!["k7"])),
        ("swap-arrays", (vec!["k4"], vec!["k1", "k2", "k3"])),
    ]
}

fn check(a: &Ver, b: &Ver) -> Result<(), String> {
    check_seq(&[a.clone()], &[b.clone()])
}

/// each replica submits its versions one after the other (each update() is its own revision) and commits once
fn check_seq(sa: &[Ver], sb: &[Ver]) -> Result<(), String> {
    let (sa, sb) = (sa.to_vec(), sb.to_vec());
    let (a, b) = (sa.last().unwrap().clone(), sb.last().unwrap().clone());
    let r = super::guarded(move || -> Result<(), String> {
        let mk = || -> Result<(Melda, Arc<RwLock<Box<dyn Adapter>>>), String> {
            let ad: Box<dyn Adapter> = Box::new(MemoryAdapter::new());
            let ad = Arc::new(RwLock::new(ad));
            Ok((Melda::new(ad.clone()).map_err(|e| e.to_string())?, ad))
        };
        let (mut ra, _) = mk()?;
        let (mut rb, _) = mk()?;
        ra.update(doc(&["k1", "k2", "k3"], &["k4"])).map_err(|e| e.to_string())?;
        ra.commit(None).map_err(|e| e.to_string())?;
        rb.meld(&ra).map_err(|e| e.to_string())?;
        rb.refresh().map_err(|e| e.to_string())?;
        for v in &sa {
            ra.update(doc(&v.0, &v.1)).map_err(|e| e.to_string())?;
        }
        ra.commit(None).map_err(|e| e.to_string())?;
        for v in &sb {
            rb.update(doc(&v.0, &v.1)).map_err(|e| e.to_string())?;
        }
        rb.commit(None).map_err(|e| e.to_string())?;
        ra.meld(&rb).map_err(|e| e.to_string())?;
        ra.refresh().map_err(|e| e.to_string())?;
        rb.meld(&ra).map_err(|e| e.to_string())?;
        rb.refresh().map_err(|e| e.to_string())?;
        let da = ra.read(None).map_err(|e| format!("read A: {}", e))?;
        let db = rb.read(None).map_err(|e| format!("read B: {}", e))?;
        if da != db {
            return Err(format!("replicas differ after synchronisation: A {} / B {}", Value::from(da), Value::from(db)));
        }
        let (t, d) = (ids(&da, TODO), ids(&da, DONE));
        let mut seen = BTreeSet::new();
        for x in t.iter().chain(d.iter()) {
            if !seen.insert(x.clone()) {
                return Err(format!("element {} appears more than once: todo={:?} done={:?}", x, t, d));
            }
        }
        // present in at least one concurrent version and deleted by nobody (still present in BOTH versions' documents or new in one)
        let base: BTreeSet<&str> = ["k1", "k2", "k3", "k4"].into_iter().collect();
        let in_a: BTreeSet<&str> = a.0.iter().chain(a.1.iter()).cloned().collect();
        let in_b: BTreeSet<&str> = b.0.iter().chain(b.1.iter()).cloned().collect();
        for x in in_a.union(&in_b) {
            let deleted = base.contains(x) && (!in_a.contains(x) || !in_b.contains(x));
            if !deleted && !seen.contains(*x) {
                return Err(format!("element {} is in a concurrent version, was deleted by nobody, but is missing: todo={:?} done={:?}", x, t, d));
            }
            if deleted && seen.contains(*x) {
                return Err(format!("element {} was deleted by one replica but reappears: todo={:?} done={:?}", x, t, d));
            }
        }
        Ok(())
    });
    match r { Ok(x) => x, Err(p) => Err(format!("panic: {}", p)) }
}

pub fn run(_thorough: bool, _seed: u64) -> Report {
    let mut rep = Report::new(
        "cross_array",
        "base todo=[k1,k2,k3] done=[k4]; every ordered pair of 9 concurrent versions (moves between the two arrays, appends, prepends, reorder, removals, swap), synchronised in both directions",
        "exhaustive over the 81 ordered pairs; non-trivial = the two versions differ",
    );
    let vs = versions();
    for (na, a) in &vs {
        for (nb, b) in &vs {
            let key = format!("{}|{}", na, nb);
            rep.case(&key, na != nb);
            if let Err(w) = check(a, b) {
                rep.fail(&format!("pair:{}", key), json!({"a": na, "b": nb}), &w);
            }
        }
    }
    // two-step family: different first edits, then an edit that yields the SAME edit script on both sides (identical last patch)
    for (name, sa, sb) in two_step() {
        let key = format!("two-step:{}", name);
        rep.case(&key, true);
        if let Err(w) = check_seq(&sa, &sb) {
            rep.fail(&format!("pair:{}", key), json!({"two_step": name}), &w);
        }
    }
    rep
}

fn two_step() -> Vec<(&'static str, Vec<Ver>, Vec<Ver>)> {
    vec![
        ("append-x|append-y;both-remove-first", vec![(vec!["k1", "k2", "k3", "x"], vec!["k4"]), (vec!["k2", "k3", "x"], vec!["k4"])], vec![(vec!["k1", "k2", "k3", "y"], vec!["k4"]), (vec!["k2", "k3", "y"], vec!["k4"])]),
        ("prepend-x|prepend-y;both-remove-last", vec![(vec!["x", "k1", "k2", "k3"], vec!["k4"]), (vec!["x", "k1", "k2"], vec!["k4"])], vec![(vec!["y", "k1", "k2", "k3"], vec!["k4"]), (vec!["y", "k1", "k2"], vec!["k4"])]),
        ("append-x|append-y;both-append-z", vec![(vec!["k1", "k2", "k3", "x"], vec!["k4"]), (vec!["k1", "k2", "k3", "x", "z"], vec!["k4"])], vec![(vec!["k1", "k2", "k3", "y"], vec!["k4"]), (vec!["k1", "k2", "k3", "y", "z"], vec!["k4"])]),
        ("move-k1|append-y;both-remove-k2", vec![(vec!["k2", "k3"], vec!["k4", "k1"]), (vec!["k3"], vec!["k4", "k1"])], vec![(vec!["k1", "k2", "k3", "y"], vec!["k4"]), (vec!["k1", "k3", "y"], vec!["k4"])]),
    ]
}

pub fn replay(case: &Value) -> Value {
    if let Some(n) = case["input"]["two_step"].as_str() {
        return match two_step().into_iter().find(|(k, _, _)| *k == n) {
            Some((_, sa, sb)) => match check_seq(&sa, &sb) { Ok(()) => json!({"reproduced": false}), Err(w) => json!({"reproduced": true, "what": w}) },
            None => json!({"reproduced": false, "error": "unknown two-step name"}),
        };
    }
    let vs = versions();
    let find = |n: &str| vs.iter().find(|(k, _)| *k == n).map(|(_, v)| v.clone());
    match (find(case["input"]["a"].as_str().unwrap_or("")), find(case["input"]["b"].as_str().unwrap_or(""))) {
        (Some(a), Some(b)) => match check(&a, &b) { Ok(()) => json!({"reproduced": false}), Err(w) => json!({"reproduced": true, "what": w}) },
        _ => json!({"reproduced": false, "error": "unknown version name"}),
    }
}
