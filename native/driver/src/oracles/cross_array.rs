//! C06 (API level): concurrent edits of flattened arrays, seen through update()/commit()/meld()/refresh()/read().
//! Stand-in for utils::unflatten and Melda::read (recursion over serde_json::Value, rayon: outside Verus):
//!   after synchronisation in both directions both replicas read the same document, every element that is present in at
//!   least one of the two concurrent versions appears, and NO element appears twice — neither inside one array nor in two
//!   different arrays (an element that concurrent edits placed in several arrays appears in exactly one of them).
//! commit:<a>|<b>:<A|B>  after the synchronisation one replica stages an UNRELATED change and commits (the commit resolves the
//!   array conflicts), the other melds + refreshes: both read the same arrays, unchanged by the commit, nothing lost.
//! observer:<a>|<b>  a third replica reads WHILE the arrays have two leaves; the author of the winning todo version then
//!   inserts y9 after its first element and commits; the observer melds + refreshes: it reads what a replica that received
//!   everything at once reads.   observer-edits:<a>|<b>  the observer itself submits its read with y9 inserted and commits:
//!   it reads back what it submitted, and so do a reopened replica and a replica that melds it.
use crate::Report;
use melda::adapter::Adapter;
use melda::melda::Melda;
use melda::memoryadapter::MemoryAdapter;
use serde_json::{json, Map, Value};
use std::collections::BTreeSet;
use std::sync::{Arc, RwLock};

const TODO: &str = "todo\u{266D}";
const DONE: &str = "done\u{266D}";

fn doc(todo: &[&str], done: &[&str]) -> Map<String, Value> {
    let mk = |ids: &[&str]| Value::from(ids.iter().map(|i| json!({"_id": i, "v": i})).collect::<Vec<Value>>());
    let mut m = Map::new();
    m.insert(TODO.to_string(), mk(todo));
    m.insert(DONE.to_string(), mk(done));
    m
}

fn ids(m: &Map<String, Value>, key: &str) -> Vec<String> {
    m.get(key).and_then(|v| v.as_array()).map(|a| a.iter().filter_map(|x| x.get("_id").and_then(|i| i.as_str()).map(|s| s.to_string())).collect()).unwrap_or_default()
}

type Ver = (Vec<&'static str>, Vec<&'static str>);

fn versions() -> Vec<(&'static str, Ver)> {
    vec![
        ("move-k2-to-done", (vec!["k1", "k3"], vec!["k4", "k2"])),
        ("move-k1-to-done-front", (vec!["k2", "k3"], vec!["k1", "k4"])),
        ("move-k4-to-todo", (vec!["k1", "k2", "k3", "k4"], vec![])),
        ("append-k5", (vec!["k1", "k2", "k3", "k5"], vec!["k4"])),
        ("prepend-k6", (vec!["k6", "k1", "k2", "k3"], vec!["k4"])),
        ("reorder-todo", (vec!["k3", "k1", "k2"], vec!["k4"])),
        ("remove-k2", (vec!["k1", "k3"], vec!["k4"])),
        ("remove-k4-add-k7-done", (vec!["k1", "k2", "k3"], vec!["k7"])),
        ("swap-arrays", (vec!["k4"], vec!["k1", "k2", "k3"])),
    ]
}

fn check(a: &Ver, b: &Ver) -> Result<(), String> {
    check_seq(&[a.clone()], &[b.clone()])
}

/// each replica submits its versions one after the other (each update() is its own revision) and commits once
fn check_seq(sa: &[Ver], sb: &[Ver]) -> Result<(), String> {
    let (sa, sb) = (sa.to_vec(), sb.to_vec());
    let (a, b) = (sa.last().unwrap().clone(), sb.last().unwrap().clone());
    let r = super::guarded(move || -> Result<(), String> {
        let mk = || -> Result<(Melda, Arc<RwLock<Box<dyn Adapter>>>), String> {
            let ad: Box<dyn Adapter> = Box::new(MemoryAdapter::new());
            let ad = Arc::new(RwLock::new(ad));
            Ok((Melda::new(ad.clone()).map_err(|e| e.to_string())?, ad))
        };
        let (mut ra, _) = mk()?;
        let (mut rb, _) = mk()?;
        ra.update(doc(&["k1", "k2", "k3"], &["k4"])).map_err(|e| e.to_string())?;
        ra.commit(None).map_err(|e| e.to_string())?;
        rb.meld(&ra).map_err(|e| e.to_string())?;
        rb.refresh().map_err(|e| e.to_string())?;
        for v in &sa {
            ra.update(doc(&v.0, &v.1)).map_err(|e| e.to_string())?;
        }
        ra.commit(None).map_err(|e| e.to_string())?;
        for v in &sb {
            rb.update(doc(&v.0, &v.1)).map_err(|e| e.to_string())?;
        }
        rb.commit(None).map_err(|e| e.to_string())?;
        ra.meld(&rb).map_err(|e| e.to_string())?;
        ra.refresh().map_err(|e| e.to_string())?;
        rb.meld(&ra).map_err(|e| e.to_string())?;
        rb.refresh().map_err(|e| e.to_string())?;
        let da = ra.read(None).map_err(|e| format!("read A: {}", e))?;
        let db = rb.read(None).map_err(|e| format!("read B: {}", e))?;
        if da != db {
            return Err(format!("replicas differ after synchronisation: A {} / B {}", Value::from(da), Value::from(db)));
        }
        let (t, d) = (ids(&da, TODO), ids(&da, DONE));
        let mut seen = BTreeSet::new();
        for x in t.iter().chain(d.iter()) {
            if !seen.insert(x.clone()) {
                return Err(format!("element {} appears more than once: todo={:?} done={:?}", x, t, d));
            }
        }
        // present in at least one concurrent version and deleted by nobody (still present in BOTH versions' documents or new in one)
        let base: BTreeSet<&str> = ["k1", "k2", "k3", "k4"].into_iter().collect();
        let in_a: BTreeSet<&str> = a.0.iter().chain(a.1.iter()).cloned().collect();
        let in_b: BTreeSet<&str> = b.0.iter().chain(b.1.iter()).cloned().collect();
        for x in in_a.union(&in_b) {
            let deleted = base.contains(x) && (!in_a.contains(x) || !in_b.contains(x));
            if !deleted && !seen.contains(*x) {
                return Err(format!("element {} is in a concurrent version, was deleted by nobody, but is missing: todo={:?} done={:?}", x, t, d));
            }
            if deleted && seen.contains(*x) {
                return Err(format!("element {} was deleted by one replica but reappears: todo={:?} done={:?}", x, t, d));
            }
        }
        Ok(())
    });
    match r { Ok(x) => x, Err(p) => Err(format!("panic: {}", p)) }
}

type Rep = (Melda, Arc<RwLock<Box<dyn Adapter>>>);

fn mk() -> Result<Rep, String> {
    let ad: Box<dyn Adapter> = Box::new(MemoryAdapter::new());
    let ad = Arc::new(RwLock::new(ad));
    Ok((Melda::new(ad.clone()).map_err(|e| e.to_string())?, ad))
}

fn sync(dst: &mut Melda, src: &Melda) -> Result<(), String> {
    dst.meld(src).map_err(|e| format!("meld: {}", e))?;
    dst.refresh().map_err(|e| format!("refresh: {}", e))
}

/// base committed by A, taken by B, both submit their version and commit (no exchange yet)
fn diverged(a: &Ver, b: &Ver) -> Result<(Rep, Rep), String> {
    let (ra, aa) = mk()?;
    let (mut rb, ab) = mk()?;
    ra.update(doc(&["k1", "k2", "k3"], &["k4"])).map_err(|e| e.to_string())?;
    ra.commit(None).map_err(|e| e.to_string())?;
    sync(&mut rb, &ra)?;
    ra.update(doc(&a.0, &a.1)).map_err(|e| e.to_string())?;
    ra.commit(None).map_err(|e| e.to_string())?;
    rb.update(doc(&b.0, &b.1)).map_err(|e| e.to_string())?;
    rb.commit(None).map_err(|e| e.to_string())?;
    Ok(((ra, aa), (rb, ab)))
}

fn arrays(m: &Melda, who: &str) -> Result<(Vec<String>, Vec<String>), String> {
    let d = m.read(None).map_err(|e| format!("read {}: {}", who, e))?;
    Ok((ids(&d, TODO), ids(&d, DONE)))
}

/// every element exactly once; present iff deleted by nobody
fn complete(t: &[String], d: &[String], a: &Ver, b: &Ver, extra: &[&str]) -> Result<(), String> {
    let mut seen = BTreeSet::new();
    for x in t.iter().chain(d.iter()) {
        if !seen.insert(x.clone()) {
            return Err(format!("element {} appears more than once: todo={:?} done={:?}", x, t, d));
        }
    }
    let base: BTreeSet<&str> = ["k1", "k2", "k3", "k4"].into_iter().collect();
    let in_a: BTreeSet<&str> = a.0.iter().chain(a.1.iter()).cloned().collect();
    let in_b: BTreeSet<&str> = b.0.iter().chain(b.1.iter()).cloned().collect();
    for x in in_a.union(&in_b) {
        let deleted = base.contains(x) && (!in_a.contains(x) || !in_b.contains(x));
        if !deleted && !seen.contains(*x) {
            return Err(format!("element {} is in a concurrent version, was deleted by nobody, but is missing: todo={:?} done={:?}", x, t, d));
        }
        if deleted && seen.contains(*x) {
            return Err(format!("element {} was deleted by one replica but reappears: todo={:?} done={:?}", x, t, d));
        }
    }
    for x in extra {
        if !seen.contains(*x) {
            return Err(format!("element {} inserted afterwards is missing: todo={:?} done={:?}", x, t, d));
        }
    }
    Ok(())
}

/// (a) after the two-way synchronisation one replica stages an UNRELATED change and commits (the commit resolves the array
/// conflicts automatically); the other melds + refreshes: same arrays on both, unchanged by the commit, nothing lost
fn check_commit(a: &Ver, b: &Ver, committer_is_a: bool) -> Result<(), String> {
    let (a, b) = (a.clone(), b.clone());
    let r = super::guarded(move || -> Result<(), String> {
        let ((mut ra, _), (mut rb, _)) = diverged(&a, &b)?;
        sync(&mut ra, &rb)?;
        sync(&mut rb, &ra)?;
        let before = arrays(&ra, "A before the commit")?;
        {
            let (c, o) = if committer_is_a { (&mut ra, &mut rb) } else { (&mut rb, &mut ra) };
            c.create_object("note", json!({"unrelated": true}).as_object().unwrap().clone()).map_err(|e| e.to_string())?;
            c.commit(None).map_err(|e| format!("commit with the arrays in conflict: {}", e))?.ok_or("commit returned None")?;
            if c.in_conflict().iter().any(|o| o.starts_with('^')) {
                return Err(format!("an array is still in conflict after the commit: {:?}", c.in_conflict()));
            }
            sync(o, c)?;
        }
        let (ta, tb) = (arrays(&ra, "A")?, arrays(&rb, "B")?);
        if ta != tb {
            return Err(format!("replicas differ after the resolving commit was exchanged: A todo={:?} done={:?} / B todo={:?} done={:?}", ta.0, ta.1, tb.0, tb.1));
        }
        if ta != before {
            return Err(format!("the commit (with an unrelated change) changed the arrays: before todo={:?} done={:?}, after todo={:?} done={:?}", before.0, before.1, ta.0, ta.1));
        }
        complete(&ta.0, &ta.1, &a, &b, &[])
    });
    match r { Ok(x) => x, Err(p) => Err(format!("panic: {}", p)) }
}

fn with_y(t: &[String]) -> Vec<String> {
    let mut v = t.to_vec();
    v.insert(1.min(v.len()), "y9".to_string());
    v
}

/// (b) an observer reads WHILE the arrays have two leaves; then the author of the winning todo version inserts y9 after its
/// first element and commits; the observer melds + refreshes and reads: same as a replica that received everything at once
fn check_observer(a: &Ver, b: &Ver) -> Result<(), String> {
    let (a, b) = (a.clone(), b.clone());
    let r = super::guarded(move || -> Result<(), String> {
        let ((ra, _), (rb, _)) = diverged(&a, &b)?;
        let (mut o, _) = mk()?;
        o.meld(&ra).map_err(|e| e.to_string())?;
        o.meld(&rb).map_err(|e| e.to_string())?;
        o.refresh().map_err(|e| e.to_string())?;
        let during = arrays(&o, "observer during the conflict")?;
        let desc = format!("^\u{221A}@{}", TODO);
        let winner = o.get_winner(&desc).map_err(|e| format!("get_winner({}): {}", desc, e))?;
        let author = if ra.get_winner(&desc).map_err(|e| e.to_string())? == winner { &ra } else { &rb };
        let own = arrays(author, "author")?;
        let next: Vec<String> = with_y(&own.0);
        let nt: Vec<&str> = next.iter().map(|s| s.as_str()).collect();
        let nd: Vec<&str> = own.1.iter().map(|s| s.as_str()).collect();
        author.update(doc(&nt, &nd)).map_err(|e| e.to_string())?;
        author.commit(None).map_err(|e| e.to_string())?.ok_or("follow-up commit returned None")?;
        sync(&mut o, author)?;
        let got = arrays(&o, "observer after the follow-up")?;
        let (mut f, _) = mk()?;
        f.meld(&ra).map_err(|e| e.to_string())?;
        f.meld(&rb).map_err(|e| e.to_string())?;
        f.refresh().map_err(|e| e.to_string())?;
        let want = arrays(&f, "replica that received everything at once")?;
        if got != want {
            return Err(format!(
                "the observer (read during the conflict: todo={:?} done={:?}) reads todo={:?} done={:?} after the author's follow-up edit, a replica that received everything at once reads todo={:?} done={:?}",
                during.0, during.1, got.0, got.1, want.0, want.1
            ));
        }
        let mut seen = BTreeSet::new();
        for x in got.0.iter().chain(got.1.iter()) {
            if !seen.insert(x.clone()) {
                return Err(format!("element {} appears more than once: todo={:?} done={:?}", x, got.0, got.1));
            }
        }
        if !seen.contains("y9") {
            return Err(format!("the inserted element y9 is missing: todo={:?} done={:?}", got.0, got.1));
        }
        Ok(())
    });
    match r { Ok(x) => x, Err(p) => Err(format!("panic: {}", p)) }
}

/// (b') the replica that read during the conflict submits its own read with y9 inserted and commits; a reopened replica
/// and a replica that melds it read the same arrays as the author, which are the submitted ones
fn check_observer_edits(a: &Ver, b: &Ver) -> Result<(), String> {
    let (a, b) = (a.clone(), b.clone());
    let r = super::guarded(move || -> Result<(), String> {
        let ((ra, _), (rb, _)) = diverged(&a, &b)?;
        let (mut o, oad) = mk()?;
        o.meld(&ra).map_err(|e| e.to_string())?;
        o.meld(&rb).map_err(|e| e.to_string())?;
        o.refresh().map_err(|e| e.to_string())?;
        let during = arrays(&o, "observer during the conflict")?;
        let next = with_y(&during.0);
        let nt: Vec<&str> = next.iter().map(|s| s.as_str()).collect();
        let nd: Vec<&str> = during.1.iter().map(|s| s.as_str()).collect();
        o.update(doc(&nt, &nd)).map_err(|e| e.to_string())?;
        o.commit(None).map_err(|e| format!("commit with the arrays in conflict: {}", e))?.ok_or("commit returned None")?;
        let own = arrays(&o, "author after its commit")?;
        if own != (next.clone(), during.1.clone()) {
            return Err(format!("after the commit the author reads todo={:?} done={:?} but submitted todo={:?} done={:?}", own.0, own.1, next, during.1));
        }
        let re = Melda::new(oad.clone()).map_err(|e| format!("reopen: {}", e))?;
        let got = arrays(&re, "reopened replica")?;
        if got != own {
            return Err(format!("a replica reopened on the author's storage reads todo={:?} done={:?}, the author todo={:?} done={:?}", got.0, got.1, own.0, own.1));
        }
        let (mut f, _) = mk()?;
        sync(&mut f, &o)?;
        let got = arrays(&f, "melded replica")?;
        if got != own {
            return Err(format!("a replica that melded the author reads todo={:?} done={:?}, the author todo={:?} done={:?}", got.0, got.1, own.0, own.1));
        }
        Ok(())
    });
    match r { Ok(x) => x, Err(p) => Err(format!("panic: {}", p)) }
}

pub fn run(_thorough: bool, _seed: u64) -> Report {
    let mut rep = Report::new(
        "cross_array",
        "base todo=[k1,k2,k3] done=[k4]; every ordered pair of 9 concurrent versions (moves between the two arrays, appends, prepends, reorder, removals, swap), synchronised in both directions; the same pairs with a resolving commit by A or by B, and (72 pairs of different versions) with an observer that reads during the conflict before the winning author's follow-up edit, or that edits and commits itself",
        "exhaustive over the 81 ordered pairs; non-trivial = the two versions differ",
    );
    let vs = versions();
    for (na, a) in &vs {
        for (nb, b) in &vs {
            let key = format!("{}|{}", na, nb);
            rep.case(&key, na != nb);
            if let Err(w) = check(a, b) {
                rep.fail(&format!("pair:{}", key), json!({"a": na, "b": nb}), &w);
            }
        }
    }
    // two-step family: different first edits, then an edit that yields the SAME edit script on both sides (identical last patch)
    for (name, sa, sb) in two_step() {
        let key = format!("two-step:{}", name);
        rep.case(&key, true);
        if let Err(w) = check_seq(&sa, &sb) {
            rep.fail(&format!("pair:{}", key), json!({"two_step": name}), &w);
        }
    }
    // the conflict is resolved by a commit / observed before a follow-up edit
    for (na, a) in &vs {
        for (nb, b) in &vs {
            for committer_is_a in [true, false] {
                let key = format!("commit:{}|{}:{}", na, nb, if committer_is_a { "A" } else { "B" });
                rep.case(&key, na != nb);
                if let Err(w) = check_commit(a, b, committer_is_a) {
                    rep.fail(&key, json!({"kind": "commit", "a": na, "b": nb, "committer_is_a": committer_is_a}), &w);
                }
            }
            if na == nb {
                continue;
            }
            let key = format!("observer:{}|{}", na, nb);
            rep.case(&key, true);
            if let Err(w) = check_observer(a, b) {
                rep.fail(&key, json!({"kind": "observer", "a": na, "b": nb}), &w);
            }
            let key = format!("observer-edits:{}|{}", na, nb);
            rep.case(&key, true);
            if let Err(w) = check_observer_edits(a, b) {
                rep.fail(&key, json!({"kind": "observer-edits", "a": na, "b": nb}), &w);
            }
        }
    }
    rep
}

fn two_step() -> Vec<(&'static str, Vec<Ver>, Vec<Ver>)> {
    vec![
        ("append-x|append-y;both-remove-first", vec![(vec!["k1", "k2", "k3", "x"], vec!["k4"]), (vec!["k2", "k3", "x"], vec!["k4"])], vec![(vec!["k1", "k2", "k3", "y"], vec!["k4"]), (vec!["k2", "k3", "y"], vec!["k4"])]),
        ("prepend-x|prepend-y;both-remove-last", vec![(vec!["x", "k1", "k2", "k3"], vec!["k4"]), (vec!["x", "k1", "k2"], vec!["k4"])], vec![(vec!["y", "k1", "k2", "k3"], vec!["k4"]), (vec!["y", "k1", "k2"], vec!["k4"])]),
        ("append-x|append-y;both-append-z", vec![(vec!["k1", "k2", "k3", "x"], vec!["k4"]), (vec!["k1", "k2", "k3", "x", "z"], vec!["k4"])], vec![(vec!["k1", "k2", "k3", "y"], vec!["k4"]), (vec!["k1", "k2", "k3", "y", "z"], vec!["k4"])]),
        ("move-k1|append-y;both-remove-k2", vec![(vec!["k2", "k3"], vec!["k4", "k1"]), (vec!["k3"], vec!["k4", "k1"])], vec![(vec!["k1", "k2", "k3", "y"], vec!["k4"]), (vec!["k1", "k3", "y"], vec!["k4"])]),
    ]
}

pub fn replay(case: &Value) -> Value {
    if let Some(n) = case["input"]["two_step"].as_str() {
        return match two_step().into_iter().find(|(k, _, _)| *k == n) {
            Some((_, sa, sb)) => match check_seq(&sa, &sb) { Ok(()) => json!({"reproduced": false}), Err(w) => json!({"reproduced": true, "what": w}) },
            None => json!({"reproduced": false, "error": "unknown two-step name"}),
        };
    }
    let vs = versions();
    let find = |n: &str| vs.iter().find(|(k, _)| *k == n).map(|(_, v)| v.clone());
    match (find(case["input"]["a"].as_str().unwrap_or("")), find(case["input"]["b"].as_str().unwrap_or(""))) {
        (Some(a), Some(b)) => match match case["input"]["kind"].as_str() {
            Some("commit") => check_commit(&a, &b, case["input"]["committer_is_a"].as_bool().unwrap_or(true)),
            Some("observer") => check_observer(&a, &b),
            Some("observer-edits") => check_observer_edits(&a, &b),
            _ => check(&a, &b),
        } { Ok(()) => json!({"reproduced": false}), Err(w) => json!({"reproduced": true, "what": w}) },
        _ => json!({"reproduced": false, "error": "unknown version name"}),
    }
}
