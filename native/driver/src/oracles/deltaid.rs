//! C10/C13 (block identifiers): src/melda.rs `DeltaId::from`, `Display`, `key()`, `new`,
//! `new_from_anchors`, `cmp`.
//! Contract: `from` never panics; Ok(id) => the input contains digits '-' word; for every id built by
//! `new`/`new_from_anchors`: from(to_string()) == id, from(key()) == id, key() == to_string()+".delta";
//! new_from_anchors(d, A).index() == 1 + max index in A (1 when A is empty); `cmp` is lexicographic
//! on (index, digest) and consistent with `==`.
use super::FailureClasses;
use crate::Report;
use melda::melda::DeltaId;
use serde_json::{json, Value};
use std::cmp::Ordering;
use std::collections::BTreeSet;

const HEX: &str = "b94d27b9934d3e08a52e52d7da7dabfac484efe37a5380ee9088f7ace2efcde9";

fn is_word(c: char) -> bool {
    c.is_ascii_alphanumeric() || c == '_'
}

/// SPEC: the (ASCII) input contains  digit+ '-' wordchar+
fn contains_pattern(s: &str) -> bool {
    let c: Vec<char> = s.chars().collect();
    for i in 0..c.len() {
        if c[i] == '-' && i > 0 && c[i - 1].is_ascii_digit() && i + 1 < c.len() && is_word(c[i + 1]) {
            return true;
        }
    }
    false
}

pub fn check_from(s: &str) -> Result<(), String> {
    let s1 = s.to_string();
    match super::guarded(move || DeltaId::from(&s1).map_err(|e| e.to_string())) {
        Err(p) => Err(format!("panic: {}", p)),
        Ok(Ok(id)) => {
            if !contains_pattern(s) {
                return Err(format!("Ok({}) for an input without the pattern digits-word", id));
            }
            Ok(())
        }
        Ok(Err(_)) => Ok(()),
    }
}

fn digit_strings() -> Vec<String> {
    let mut v: Vec<String> = vec![];
    for l in 1..=12usize {
        v.push(format!("1{}", "0".repeat(l - 1)));
        v.push("9".repeat(l));
        v.push(format!("{}7", "0".repeat(l - 1)));
        v.push("0".repeat(l));
    }
    for s in ["4294967294", "4294967295", "4294967296", "04294967295", "99999999999", "18446744073", "2", "42"] {
        v.push(s.to_string());
    }
    v.sort();
    v.dedup();
    v
}

fn alphabet_strings(maxlen: usize) -> Vec<String> {
    let alpha = ['1', '-', 'a', '.', '_'];
    let mut out = vec![String::new()];
    let mut frontier = vec![String::new()];
    for _ in 0..maxlen {
        let mut next = vec![];
        for s in &frontier {
            for c in alpha {
                let mut t = s.clone();
                t.push(c);
                next.push(t);
            }
        }
        out.extend(next.iter().cloned());
        frontier = next;
    }
    out
}

/// anchors given as (index, word) pairs, built through DeltaId::from (the only way to get an index > 1)
fn anchors_of(a: &[(u32, String)]) -> Result<BTreeSet<DeltaId>, String> {
    let mut s = BTreeSet::new();
    for (i, w) in a {
        s.insert(DeltaId::from(&format!("{}-{}", i, w)).map_err(|e| e.to_string())?);
    }
    Ok(s)
}

pub fn check_built(digest: &str, anchors: Option<&[(u32, String)]>) -> Result<DeltaId, String> {
    let d = digest.to_string();
    let a: Option<Vec<(u32, String)>> = anchors.map(|x| x.to_vec());
    let r = super::guarded(move || -> Result<DeltaId, String> {
        let (id, want_index) = match &a {
            None => (DeltaId::new(d.clone()), 1u32),
            Some(a) => {
                let set = anchors_of(a)?;
                for x in &set {
                    if !a.iter().any(|(i, w)| *i == x.index() && w == x.digest()) {
                        return Err(format!("anchor {} does not have the index/digest it was built from", x));
                    }
                }
                (DeltaId::new_from_anchors(d.clone(), &set), a.iter().map(|(i, _)| *i).max().unwrap_or(0) + 1)
            }
        };
        if id.index() != want_index {
            return Err(format!("index() = {}, expected {}", id.index(), want_index));
        }
        if id.digest() != &d {
            return Err(format!("digest() = {}, expected {}", id.digest(), d));
        }
        let text = id.to_string();
        if text != format!("{}-{}", want_index, d) {
            return Err(format!("to_string() = {:?}", text));
        }
        if id.key() != format!("{}.delta", text) {
            return Err(format!("key() = {:?}, to_string() = {:?}", id.key(), text));
        }
        match DeltaId::from(&text) {
            Ok(b) if b == id => {}
            Ok(b) => return Err(format!("from(to_string()) = {} != {}", b, id)),
            Err(e) => return Err(format!("from(to_string()={:?}) is Err({})", text, e)),
        }
        match DeltaId::from(&id.key()) {
            Ok(b) if b == id => {}
            Ok(b) => return Err(format!("from(key()) = {} != {}", b, id)),
            Err(e) => return Err(format!("from(key()={:?}) is Err({})", id.key(), e)),
        }
        Ok(id)
    });
    match r {
        Ok(x) => x,
        Err(p) => Err(format!("panic: {}", p)),
    }
}

pub fn check_cmp(a: &DeltaId, b: &DeltaId) -> Result<(), String> {
    let (a1, b1) = (a.clone(), b.clone());
    let got = super::guarded(move || (a1.cmp(&b1), b1.cmp(&a1), a1.partial_cmp(&b1), a1 == b1));
    let (ab, ba, pab, eq) = got.map_err(|p| format!("panic: {}", p))?;
    let want = (a.index(), a.digest().as_bytes()).cmp(&(b.index(), b.digest().as_bytes()));
    if ab != want {
        return Err(format!("cmp({}, {}) = {:?}, lexicographic (index, digest) gives {:?}", a, b, ab, want));
    }
    if ba != ab.reverse() || pab != Some(ab) {
        return Err(format!("cmp({}, {}) not antisymmetric / partial_cmp differs", a, b));
    }
    if (ab == Ordering::Equal) != eq {
        return Err(format!("cmp == Equal is {} but == is {} for {} , {}", ab == Ordering::Equal, eq, a, b));
    }
    Ok(())
}

fn anchor_sets() -> Vec<Vec<(u32, String)>> {
    let idx = [1u32, 2, 9, 10, 4294967294];
    let words = ["ab", "0f3c", "a_b"];
    let mut out: Vec<Vec<(u32, String)>> = vec![vec![]];
    for (i, a) in idx.iter().enumerate() {
        out.push(vec![(*a, words[i % 3].to_string())]);
        for (j, b) in idx.iter().enumerate() {
            if j < i {
                continue;
            }
            // j == i: same index, different digest
            out.push(vec![(*a, words[i % 3].to_string()), (*b, words[(i + 1) % 3].to_string())]);
            for (k, c) in idx.iter().enumerate() {
                if k < j {
                    continue;
                }
                out.push(vec![
                    (*a, words[i % 3].to_string()),
                    (*b, words[(i + 1) % 3].to_string()),
                    (*c, words[(i + 2) % 3].to_string()),
                ]);
            }
        }
    }
    out
}

pub fn run(thorough: bool, _seed: u64) -> Report {
    let maxlen = if thorough { 4 } else { 3 };
    let mut rep = Report::new(
        "deltaid",
        &format!(
            "from(): '<digits>-<w>' and '<digits>-<w>.delta' for {} digit strings of length 1..12 (leading zeros, 4294967295/4294967296/99999999999 included) x w in {{ab,0f3c,a_b}}, all strings of length <= {} over {{1,-,a,.,_}}, junk list; built ids: new(d) and new_from_anchors(d, A) for 4 digests x all anchor multisets of size 0..3 over indices {{1,2,9,10,4294967294}}; cmp on all ordered pairs of built ids",
            digit_strings().len(),
            maxlen
        ),
        "exhaustive; non-trivial = from() input that contains the pattern / built id with at least one anchor / cmp pair with equal index",
    );
    let mut inputs: Vec<String> = vec![];
    for d in digit_strings() {
        for w in ["ab", "0f3c", "a_b"] {
            inputs.push(format!("{}-{}", d, w));
            inputs.push(format!("{}-{}.delta", d, w));
        }
    }
    inputs.extend(alphabet_strings(maxlen));
    for j in ["-", "1-", "-ab", ".delta", "1-.delta", "ab", "1_ab", " 1-ab ", "x1-ab.pack", "1--ab", "-1-ab", "1-ab-2-cd", "1.delta"] {
        inputs.push(j.to_string());
    }
    inputs.sort();
    inputs.dedup();
    let mut classes = FailureClasses::new(2);
    for s in &inputs {
        rep.case(&format!("from:{}", s), contains_pattern(s));
        if let Err(w) = check_from(s) {
            let class = if w.starts_with("panic") { "from-panic" } else { "from-other" };
            classes.fail(&mut rep, class, &format!("from:{}", s), json!({"kind": "from", "s": s}), &w);
        }
    }
    let digests = ["ab", "0f3c", "a_b", HEX];
    let mut built: Vec<DeltaId> = vec![];
    for d in digests {
        rep.case(&format!("new:{}", d), false);
        match check_built(d, None) {
            Ok(id) => built.push(id),
            Err(w) => classes.fail(&mut rep, "built", &format!("new:{}", d), json!({"kind": "built", "digest": d, "anchors": Value::Null}), &w),
        }
        for a in anchor_sets() {
            let key = format!("anchors:{}:{:?}", d, a);
            rep.case(&key, !a.is_empty());
            match check_built(d, Some(&a)) {
                Ok(id) => built.push(id),
                Err(w) => classes.fail(&mut rep, "built", &key, json!({"kind": "built", "digest": d, "anchors": a}), &w),
            }
        }
    }
    built.sort_by(|a, b| (a.index(), a.digest()).cmp(&(b.index(), b.digest())));
    built.dedup();
    for a in &built {
        for b in &built {
            let key = format!("cmp:{}|{}", a, b);
            rep.case(&key, a.index() == b.index());
            if let Err(w) = check_cmp(a, b) {
                classes.fail(&mut rep, "cmp", &key, json!({"kind": "cmp", "a": a.to_string(), "b": b.to_string()}), &w);
            }
        }
    }
    classes.summary("deltaid");
    rep
}

pub fn replay(case: &Value) -> Value {
    let inp = &case["input"];
    let res: Result<(), String> = match inp["kind"].as_str() {
        Some("from") => check_from(inp["s"].as_str().unwrap_or("")),
        Some("built") => {
            let anchors: Option<Vec<(u32, String)>> = inp["anchors"].as_array().map(|a| {
                a.iter().map(|p| (p[0].as_u64().unwrap_or(0) as u32, p[1].as_str().unwrap_or("").to_string())).collect()
            });
            check_built(inp["digest"].as_str().unwrap_or(""), anchors.as_deref()).map(|_| ())
        }
        Some("cmp") => {
            let a = super::guarded(|| DeltaId::from(inp["a"].as_str().unwrap_or("")).ok());
            let b = super::guarded(|| DeltaId::from(inp["b"].as_str().unwrap_or("")).ok());
            match (a, b) {
                (Ok(Some(a)), Ok(Some(b))) => check_cmp(&a, &b),
                _ => return json!({"reproduced": false, "error": "bad input"}),
            }
        }
        _ => return json!({"reproduced": false, "error": "bad input"}),
    };
    match res {
        Ok(()) => json!({"reproduced": false}),
        Err(w) => json!({"reproduced": true, "what": w}),
    }
}
