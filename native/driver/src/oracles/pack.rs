//! C03 / C09 / C10: src/datastorage.rs `DataStorage` over a `MemoryAdapter`.
//!  C03 durability: after staging values and `pack()` == Ok(Some(p)): the adapter holds key p+".pack"
//!      whose bytes hash to p; the stage is empty; a FRESH DataStorage on the same adapter, after
//!      `reload()` (and another one after `refresh()`), reads every staged digest back, equal to the
//!      staged value; the packing storage itself reads them back too; same when packed in two rounds.
//!  C09 failed write: if the adapter's write fails, `pack()` is Err, the stage is kept, and a retry
//!      with the fault removed stores the same values (pack parsed as a JSON array, as a multiset)
//!      as an uninterrupted run.
//!  C10 corruption: a pack with one byte changed / truncated / emptied (under the same key) makes a
//!      fresh `reload()` fail, or else every read is Err or the ORIGINAL value — never another value.
use super::FailureClasses;
use crate::Report;
use melda::adapter::Adapter;
use melda::memoryadapter::MemoryAdapter;
use melda::vf::utils::{digest_bytes, digest_string};
use melda::vf::DataStorage;
use serde_json::{json, Value};
use std::any::Any;
use std::sync::atomic::{AtomicBool, Ordering};
use std::sync::{Arc, RwLock};

type Dyn = Arc<RwLock<Box<dyn Adapter>>>;

fn mem() -> Dyn {
    let a: Box<dyn Adapter> = Box::new(MemoryAdapter::new());
    Arc::new(RwLock::new(a))
}

/// test double: a MemoryAdapter whose `write_object` fails while `fail` is set
struct FaultyAdapter {
    inner: MemoryAdapter,
    fail: Arc<AtomicBool>,
}

impl Adapter for FaultyAdapter {
    fn as_any(&self) -> &dyn Any {
        self
    }
    fn as_any_mut(&mut self) -> &mut dyn Any {
        self
    }
    fn read_object(&self, key: &str, offset: usize, length: usize) -> anyhow::Result<Vec<u8>> {
        self.inner.read_object(key, offset, length)
    }
    fn write_object(&self, key: &str, data: &[u8]) -> anyhow::Result<()> {
        if self.fail.load(Ordering::SeqCst) {
            Err(anyhow::anyhow!("injected_write_fault"))
        } else {
            self.inner.write_object(key, data)
        }
    }
    fn list_objects(&self, ext: &str) -> anyhow::Result<Vec<String>> {
        self.inner.list_objects(ext)
    }
}

fn digest_of(v: &Value) -> String {
    digest_string(&serde_json::to_string(v).unwrap())
}

fn stage_all(ds: &mut DataStorage, vals: &[Value]) -> Result<Vec<String>, String> {
    let mut ds_digests = vec![];
    for v in vals {
        let d = digest_of(v);
        ds.write_raw_value(&d, v.clone()).map_err(|e| format!("write_raw_value Err({})", e))?;
        ds_digests.push(d);
    }
    Ok(ds_digests)
}

fn read_all(ds: &DataStorage, vals: &[Value], who: &str) -> Result<(), String> {
    for v in vals {
        let d = digest_of(v);
        match ds.read_raw_value(&d) {
            Ok(got) if &got == v => {}
            Ok(got) => return Err(format!("{}: read_raw_value({}) = {} but staged value was {}", who, &d[..8], got, v)),
            Err(e) => return Err(format!("{}: read_raw_value of staged value {} is Err({})", who, v, e)),
        }
    }
    Ok(())
}

fn fresh_checks(ad: &Dyn, vals: &[Value]) -> Result<(), String> {
    let mut f1 = DataStorage::new(ad.clone());
    f1.reload().map_err(|e| format!("fresh reload() is Err({})", e))?;
    read_all(&f1, vals, "fresh storage after reload()")?;
    let mut f2 = DataStorage::new(ad.clone());
    f2.refresh().map_err(|e| format!("fresh refresh() is Err({})", e))?;
    read_all(&f2, vals, "fresh storage after refresh()")?;
    Ok(())
}

fn pack_once(ds: &mut DataStorage, ad: &Dyn) -> Result<(String, Vec<u8>), String> {
    let p = match ds.pack() {
        Ok(Some(p)) => p,
        Ok(None) => return Err("pack() returned Ok(None) with a non-empty stage".to_string()),
        Err(e) => return Err(format!("pack() is Err({})", e)),
    };
    let bytes = ad
        .read()
        .unwrap()
        .read_object(&format!("{}.pack", p), 0, 0)
        .map_err(|e| format!("adapter has no key {}.pack after pack(): {}", p, e))?;
    if digest_bytes(&bytes) != p {
        return Err(format!("bytes stored under {}.pack hash to {}", p, digest_bytes(&bytes)));
    }
    if ds.has_staging() || ds.stage().map(|s| s != json!({})).unwrap_or(true) {
        return Err("stage not empty after pack()".to_string());
    }
    Ok((p, bytes))
}

/// C03; returns the (pack id, bytes) of the single-round run for the corruption check
pub fn check_durability(vals: &[Value]) -> Result<(String, Vec<u8>), String> {
    let v1 = vals.to_vec();
    let r = super::guarded(move || -> Result<(String, Vec<u8>), String> {
        // one round
        let ad = mem();
        let mut ds = DataStorage::new(ad.clone());
        stage_all(&mut ds, &v1)?;
        if !ds.has_staging() {
            return Err("has_staging() false after write_raw_value".to_string());
        }
        read_all(&ds, &v1, "staging storage before pack()")?;
        let (p, bytes) = pack_once(&mut ds, &ad)?;
        if ad.read().unwrap().list_objects(".pack").map_err(|e| e.to_string())? != vec![p.clone()] {
            return Err("adapter does not list exactly the new pack".to_string());
        }
        read_all(&ds, &v1, "packing storage after pack()")?;
        if ds.pack().map_err(|e| e.to_string())?.is_some() {
            return Err("second pack() with an empty stage wrote a pack".to_string());
        }
        fresh_checks(&ad, &v1)?;
        // two rounds: first value, then the rest
        if v1.len() >= 2 {
            let ad2 = mem();
            let mut ds2 = DataStorage::new(ad2.clone());
            stage_all(&mut ds2, &v1[..1])?;
            pack_once(&mut ds2, &ad2)?;
            stage_all(&mut ds2, &v1[1..])?;
            pack_once(&mut ds2, &ad2)?;
            read_all(&ds2, &v1, "packing storage after two pack() rounds")?;
            fresh_checks(&ad2, &v1).map_err(|e| format!("two rounds: {}", e))?;
        }
        Ok((p, bytes))
    });
    match r {
        Ok(x) => x,
        Err(p) => Err(format!("panic: {}", p)),
    }
}

fn elements(bytes: &[u8]) -> Result<Vec<String>, String> {
    let v: Value = serde_json::from_slice(bytes).map_err(|e| format!("pack is not JSON: {}", e))?;
    let mut e: Vec<String> = v.as_array().ok_or("pack is not a JSON array")?.iter().map(|x| x.to_string()).collect();
    e.sort();
    Ok(e)
}

/// C09
pub fn check_failed_write(vals: &[Value], reference: &[u8]) -> Result<(), String> {
    let (v1, refb) = (vals.to_vec(), reference.to_vec());
    let r = super::guarded(move || -> Result<(), String> {
        let fail = Arc::new(AtomicBool::new(true));
        let fa: Box<dyn Adapter> = Box::new(FaultyAdapter { inner: MemoryAdapter::new(), fail: fail.clone() });
        let ad: Dyn = Arc::new(RwLock::new(fa));
        let mut ds = DataStorage::new(ad.clone());
        stage_all(&mut ds, &v1)?;
        match ds.pack() {
            Err(_) => {}
            Ok(x) => return Err(format!("pack() returned Ok({:?}) although the adapter write failed", x)),
        }
        if !ds.has_staging() {
            return Err("stage lost after a failed pack()".to_string());
        }
        read_all(&ds, &v1, "storage after failed pack()")?;
        if !ad.read().unwrap().list_objects("").map_err(|e| e.to_string())?.is_empty() {
            return Err("adapter not empty after a failed write".to_string());
        }
        fail.store(false, Ordering::SeqCst);
        let (_p, bytes) = pack_once(&mut ds, &ad).map_err(|e| format!("retry: {}", e))?;
        if elements(&bytes)? != elements(&refb)? {
            return Err(format!(
                "retried pack holds {} but the uninterrupted run holds {}",
                String::from_utf8_lossy(&bytes),
                String::from_utf8_lossy(&refb)
            ));
        }
        if ad.read().unwrap().list_objects(".pack").map_err(|e| e.to_string())?.len() != 1 {
            return Err("retry left more than one pack".to_string());
        }
        read_all(&ds, &v1, "storage after retried pack()")?;
        Ok(())
    });
    match r {
        Ok(x) => x,
        Err(p) => Err(format!("panic: {}", p)),
    }
}

/// C10: one damaged copy of the pack under the same key
pub fn check_corrupted(vals: &[Value], p: &str, damaged: &[u8]) -> Result<(), String> {
    let (v1, p1, d1) = (vals.to_vec(), p.to_string(), damaged.to_vec());
    let r = super::guarded(move || -> Result<(), String> {
        let ad = mem();
        ad.read().unwrap().write_object(&format!("{}.pack", p1), &d1).map_err(|e| e.to_string())?;
        for use_refresh in [false, true] {
            let mut f = DataStorage::new(ad.clone());
            let r = if use_refresh { f.refresh() } else { f.reload() };
            if r.is_ok() {
                for v in &v1 {
                    if let Ok(got) = f.read_raw_value(&digest_of(v)) {
                        if &got != v {
                            return Err(format!("damaged pack accepted and read_raw_value gives {} instead of {}", got, v));
                        }
                    }
                }
            }
        }
        Ok(())
    });
    match r {
        Ok(x) => x,
        Err(p) => Err(format!("panic: {}", p)),
    }
}

fn damaged_variants(bytes: &[u8], step: usize) -> Vec<(String, Vec<u8>)> {
    let mut out = vec![];
    for i in (0..bytes.len()).step_by(step) {
        for (tag, nb) in [("x1", bytes[i] ^ 0x01), ("sp", b' '), ("br", b'}'), ("q", b'"')] {
            if nb != bytes[i] {
                let mut d = bytes.to_vec();
                d[i] = nb;
                out.push((format!("byte{}{}", i, tag), d));
            }
        }
    }
    for l in 0..bytes.len() {
        out.push((format!("trunc{}", l), bytes[..l].to_vec()));
    }
    out
}

fn strings(maxlen: usize) -> Vec<String> {
    let alpha = ['{', '}', '"', '\\', 'a', ',', 'é'];
    let mut out = vec![String::new()];
    let mut frontier = vec![String::new()];
    for _ in 0..maxlen {
        let mut next = vec![];
        for s in &frontier {
            for c in alpha {
                let mut t = s.clone();
                t.push(c);
                next.push(t);
            }
        }
        out.extend(next.iter().cloned());
        frontier = next;
    }
    out
}

fn numbers() -> Vec<Value> {
    vec![
        json!({"n": 0}),
        json!({"n": -7}),
        json!({"n": 1.5}),
        json!({"n": 1e300}),
        json!({"n": [1, -2, 0.25, 123456789012345u64]}),
        json!({"n": -2.5e-7, "m": {"k": 3}}),
    ]
}

/// groups of 1..3 values staged together, for the i-th string
fn groups(i: usize, s: &str) -> Vec<Vec<Value>> {
    let v1 = json!({"k": s});
    let v2 = json!({ s: 1 });
    let v3 = json!({"a": {"b": [s, {"c": s}]}});
    let nums = numbers();
    let n = nums[i % nums.len()].clone();
    let n2 = nums[(i + 1) % nums.len()].clone();
    vec![
        vec![v1.clone()],
        vec![v2.clone()],
        vec![v3.clone()],
        vec![v1.clone(), v2.clone()],
        vec![v1.clone(), v3.clone()],
        vec![v3.clone(), v2.clone()],
        vec![v1.clone(), v2.clone(), v3.clone()],
        vec![n.clone()],
        vec![n.clone(), v1.clone()],
        vec![v2, n, n2],
    ]
}

fn has_brace_in_string(v: &Value) -> bool {
    match v {
        Value::String(s) => s.contains('{') || s.contains('}'),
        Value::Array(a) => a.iter().any(has_brace_in_string),
        Value::Object(o) => o.iter().any(|(k, x)| k.contains('{') || k.contains('}') || has_brace_in_string(x)),
        _ => false,
    }
}

fn prefix(vals: &[Value]) -> &'static str {
    if vals.iter().any(has_brace_in_string) {
        "brace-string:"
    } else {
        "other:"
    }
}

pub fn run(thorough: bool, _seed: u64) -> Report {
    let (maxlen, step) = if thorough { (4, 1) } else { (3, 3) };
    let mut rep = Report::new(
        "pack",
        &format!(
            "for every string s of length <= {} over {{ {{ }} \" \\ a , é }}: 10 groups of 1..3 values out of {{\"k\":s}}, {{s:1}}, {{\"a\":{{\"b\":[s,{{\"c\":s}}]}}}} and 6 number objects (ints, negative, 1.5, 1e300, -2.5e-7); per group: durability (1 and 2 pack rounds, fresh reload/refresh), failed-write retry, and corruption of the pack at every {} byte position (4 replacement bytes), every truncation length, emptied",
            maxlen,
            if step == 1 { "single".to_string() } else { format!("{}rd", step) }
        ),
        "exhaustive over strings x groups; one case per group and check kind (durability / failed-write / each damaged copy); non-trivial = group with a string containing a brace, quote or backslash, or more than one value",
    );
    let mut classes = FailureClasses::new(2);
    for (i, s) in strings(maxlen).iter().enumerate() {
        for (g, vals) in groups(i, s).iter().enumerate() {
            let nontrivial = vals.len() > 1 || s.chars().any(|c| "{}\"\\".contains(c));
            let key = format!("{}#{}", s, g);
            rep.case(&format!("dur:{}", key), nontrivial);
            let reference = match check_durability(vals) {
                Ok(x) => Some(x),
                Err(w) => {
                    classes.fail(&mut rep, &format!("{}durability", prefix(vals)), &format!("{}durability:{}", prefix(vals), key), json!({"kind": "durability", "values": vals}), &w);
                    None
                }
            };
            // the uninterrupted reference pack for C09/C10 (taken again if the durability check failed later on)
            let reference = reference.or_else(|| {
                let v = vals.clone();
                super::guarded(move || {
                    let ad = mem();
                    let mut ds = DataStorage::new(ad.clone());
                    stage_all(&mut ds, &v).ok()?;
                    pack_once(&mut ds, &ad).ok()
                })
                .ok()
                .flatten()
            });
            let (p, bytes) = match reference {
                Some(x) => x,
                None => continue,
            };
            rep.case(&format!("fault:{}", key), nontrivial);
            if let Err(w) = check_failed_write(vals, &bytes) {
                classes.fail(&mut rep, "other:failed-write", &format!("other:failed-write:{}", key), json!({"kind": "failed-write", "values": vals}), &w);
            }
            for (tag, d) in damaged_variants(&bytes, step) {
                rep.case(&format!("dmg:{}:{}", key, tag), nontrivial);
                if let Err(w) = check_corrupted(vals, &p, &d) {
                    classes.fail(
                        &mut rep,
                        "other:corrupted",
                        &format!("other:corrupted:{}:{}", key, tag),
                        json!({"kind": "corrupted", "values": vals, "pack_id": p, "damaged": d}),
                        &w,
                    );
                }
            }
        }
    }
    classes.summary("pack");
    rep
}

pub fn replay(case: &Value) -> Value {
    let inp = &case["input"];
    let vals = inp["values"].as_array().cloned().unwrap_or_default();
    let res: Result<(), String> = match inp["kind"].as_str() {
        Some("durability") => check_durability(&vals).map(|_| ()),
        Some("failed-write") => match check_durability(&vals) {
            // reference run first; if that already fails this is not a failed-write reproduction
            Ok((_, bytes)) => check_failed_write(&vals, &bytes),
            Err(_) => {
                let v = vals.clone();
                let r = super::guarded(move || {
                    let ad = mem();
                    let mut ds = DataStorage::new(ad.clone());
                    stage_all(&mut ds, &v).ok()?;
                    pack_once(&mut ds, &ad).ok()
                });
                match r {
                    Ok(Some((_, bytes))) => check_failed_write(&vals, &bytes),
                    _ => Err("reference run failed".to_string()),
                }
            }
        },
        Some("corrupted") => {
            let d: Vec<u8> = inp["damaged"].as_array().map(|a| a.iter().map(|x| x.as_u64().unwrap_or(0) as u8).collect()).unwrap_or_default();
            check_corrupted(&vals, inp["pack_id"].as_str().unwrap_or(""), &d)
        }
        _ => return json!({"reproduced": false, "error": "bad input"}),
    };
    match res {
        Ok(()) => json!({"reproduced": false}),
        Err(w) => json!({"reproduced": true, "what": w}),
    }
}
