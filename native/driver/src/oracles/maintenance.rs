//! C12 through the PUBLIC API on MemoryAdapters.
//! Property: operations that do not express a user edit never change the document a replica shows: committing
//! (including the automatic resolution of array conflicts it performs), taking full snapshots of arrays, melding
//! without refreshing, and refreshing or reloading while storage holds nothing the replica has not already applied
//! all leave the result of reading unchanged.
//!
//! Observation = read(None) (the document), get_all_objects(), get_value(o, None) of every object that is not an
//! array descriptor, in_conflict(); get_anchors() where stated.  Winner revision STRINGS are recorded too, but a change
//! there is only a note (snapshots and the automatic resolution legitimately create revisions); for operations that
//! commit, array descriptors may leave (never enter) the conflict set.
//!
//! Situations (documents: title, objects o1/o2 under a♭/b♭, array list♭ edited by script, static array tags♭):
//!   S1   fresh replica, several update()s staged (the array is stored as a chain of edit scripts), nothing committed
//!   S2c  three commits, nothing staged            S2   S2c + two more staged update()s
//!   S3   B took A's first commit (meld+refresh), A committed twice more, B melded A again WITHOUT refresh; subject B
//!   S3s  S3 + a staged update_object on B
//!   S4   A and B edit o1 concurrently, A (subject) melds B + refresh: OBJECT conflict, nothing staged; S4s + staged edit
//!   S5a  A appends k5, B appends k6 to list♭, A melds B + refresh: ARRAY conflict; S5as + a staged update_object
//!   S5b  A reverses list♭, B removes its first element; S5bs + a staged update_object
//!   S7v  three commits of o1: light -> dark -> light (the last block records a change but lists NO pack: the value is
//!        already stored); S7d  the last commit is a deletion only (no pack); S7r  S4 + resolve_as(o1, winner) committed
//!        (a resolution-only block without pack) — all three with nothing staged
//!   S8q  24 extra tracked objects (more than the 16-entry object cache) whose strings end in a backslash, contain escaped
//!        quotes, braces and backslash + quote sequences; two commits, nothing staged
//!   S6 / S6s  like S2c / S2 with more array versions and both LRU caches capped at ONE entry
//!        (MELDA_ARRAYDESCRIPTORS_CACHE_CAP / MELDA_DATA_CACHE_CAP = 1; there is no constructor taking cache sizes)
//! Operations (each in every situation where it is defined), observation before == after:
//!   commit, commit-info      with staged changes: Ok(Some); then a reopened replica shows the same (not in S3*, where
//!                            storage holds blocks the subject has not applied)
//!   commit-propagates        (S4s, S5as, S5bs) commit, then the peer melds the subject + refresh: same document and conflicts
//!   commit-nothing           nothing staged: Ok(None), anchors and stored items unchanged
//!   snapshot-only            stage_full_snapshot() twice, no commit: Ok, unchanged
//!   snapshot                 stage_full_snapshot(): Ok, unchanged; commit (if something got staged): unchanged; reopen
//!   meld-in / meld-out       subject.meld(peer) / peer.meld(subject) WITHOUT refresh: both observations and anchors unchanged
//!   refresh                  nothing staged, storage holds nothing new: refresh() twice
//!   meld-refresh-nothing-new a peer that holds a subset of the subject's blocks is melded in, then refresh()
//!   refresh-after-commit     commit, then refresh() twice        reload-after-commit   commit, then reload()
//!   reload                   nothing staged, everything stored is applied: reload()
//!   reopen                   nothing staged: Melda::new on the same adapter shows the same
//!   stage-export             stage() twice: same value, nothing changes
//! Case id `<situation>:<operation>` (script 0) or `<situation>#<script>:<operation>`.  Every case runs guarded in its
//! own thread with a 5 s limit (the S5* commit cases, started together up front: 2 s in the quick tier); a case that does not finish is booked as `hang:<case id>` (commit while an ARRAY is in
//! conflict — S5* — is known to hang on this version: another property) and the oracle goes on.
use super::orch::{self, Dyn, Out, Rng};
use super::FailureClasses;
use crate::Report;
use melda::melda::Melda;
use serde_json::{json, Map, Value};
use std::collections::BTreeSet;
use std::sync::mpsc::{channel, Receiver};
use std::time::{Duration, Instant};

const F: &str = "\u{266D}";
const LIMIT: Duration = Duration::from_secs(5);

#[derive(Clone)]
struct Model {
    title: u32,
    o1: i64,
    o2: Option<i64>,
    items: Vec<(String, i64)>,
    next_item: u32,
}

impl Model {
    fn new() -> Model {
        Model { title: 1, o1: 1, o2: Some(1), items: (1..=4).map(|i| (format!("k{}", i), i as i64)).collect(), next_item: 7 }
    }
    fn doc(&self) -> Map<String, Value> {
        let mut m = Map::new();
        m.insert("title".into(), json!(format!("t{}", self.title)));
        m.insert(format!("a{}", F), json!({"_id": "o1", "v": self.o1}));
        if let Some(v) = self.o2 {
            m.insert(format!("b{}", F), json!({"_id": "o2", "v": v, "s": "x}y"}));
        }
        m.insert(format!("list{}", F), Value::Array(self.items.iter().map(|(id, n)| json!({"_id": id, "n": n})).collect()));
        m.insert(format!("tags{}", F), json!([{"_id": "t1", "n": 1}, {"_id": "t2", "n": 2}]));
        m
    }
    fn append(&mut self) {
        self.items.push((format!("k{}", self.next_item), self.next_item as i64));
        self.next_item += 1;
    }
    fn mutate(&mut self, op: usize) {
        match op {
            0 => self.o1 += 1,
            1 => self.title += 1,
            2 => self.append(),
            3 => {
                if self.items.len() < 2 {
                    self.append()
                } else {
                    self.items.remove(0);
                }
            }
            4 => {
                if self.items.len() < 2 {
                    self.append()
                } else {
                    self.items.reverse()
                }
            }
            5 => self.o2 = if self.o2.is_some() { None } else { Some(50 + self.title as i64) },
            _ => match self.items.last_mut() {
                Some(it) => it.1 += 10,
                None => self.append(),
            },
        }
    }
    /// one user edit: script 0 appends to the array and bumps o1; other scripts draw two mutations
    fn edit(&mut self, rng: &mut Option<Rng>) {
        let before = self.doc();
        match rng {
            None => {
                self.mutate(2);
                self.mutate(0);
            }
            Some(r) => {
                let a = r.below(7);
                let b = r.below(7);
                self.mutate(a);
                self.mutate(b);
            }
        }
        if self.doc() == before {
            self.mutate(1);
        }
    }
}

struct Sit {
    m: Melda,
    ad: Dyn,
    /// a replica to meld with (holds blocks the subject has not, and lacks some the subject has)
    peer: Melda,
    /// storage holds only blocks the subject has applied
    storage_applied: bool,
}

fn upd(m: &Melda, model: &Model, what: &str) -> Result<(), String> {
    orch::ge(what, || m.update(model.doc())).map(|_| ())
}

fn commit_some(m: &Melda, what: &str) -> Result<(), String> {
    match orch::ge(what, || m.commit(None))? {
        Some(_) => Ok(()),
        None => Err(format!("{}: commit returned Ok(None)", what)),
    }
}

fn sync(dst: &mut Melda, src: &Melda, what: &str) -> Result<(), String> {
    orch::ge(&format!("{}: meld", what), || dst.meld(src))?;
    orch::ge(&format!("{}: refresh", what), || dst.refresh())
}

/// the situation is only what it claims to be if the block of the last commit lists no pack
fn no_pack_in_last_block(m: &Melda) -> Result<(), String> {
    let heads = orch::g(|| m.get_anchors()).map_err(|p| format!("panic in get_anchors: {}", p))?;
    let id = heads.iter().next().cloned().ok_or("driver: no head")?;
    let d = orch::ge("get_delta", || m.get_delta(&id))?.ok_or("driver: get_delta(head) is None")?;
    match &d.packs {
        Some(p) if !p.is_empty() => Err(format!("driver: the last block lists packs {:?}", p)),
        _ => Ok(()),
    }
}

fn stranger() -> Result<Melda, String> {
    let o = orch::open(&orch::mem())?;
    let mut d = Map::new();
    d.insert("title".into(), json!("other"));
    d.insert(format!("z{}", F), json!({"_id": "z1", "v": 1}));
    orch::ge("peer.update", || o.update(d))?;
    commit_some(&o, "peer.commit")?;
    Ok(o)
}

const SITUATIONS: [&str; 17] = ["S1", "S2c", "S2", "S3", "S3s", "S4", "S4s", "S5a", "S5as", "S5b", "S5bs", "S7v", "S7d", "S7r", "S8q", "S6", "S6s"];

fn build(sit: &str, script: usize, seed: u64) -> Result<Sit, String> {
    let mut rng = if script == 0 { None } else { Some(Rng::new(seed.wrapping_mul(7919).wrapping_add(script as u64))) };
    let mut model = Model::new();
    let ad = orch::mem();
    match sit {
        "S1" | "S2c" | "S2" | "S6" | "S6s" => {
            let m = orch::open(&ad)?;
            let per_commit = if sit.starts_with("S6") { 3 } else { 2 };
            upd(&m, &model, "update")?;
            for _ in 0..per_commit {
                model.edit(&mut rng);
                upd(&m, &model, "update")?;
            }
            if sit != "S1" {
                commit_some(&m, "commit 1")?;
                for c in 2..=3 {
                    for _ in 0..per_commit {
                        model.edit(&mut rng);
                        upd(&m, &model, "update")?;
                    }
                    commit_some(&m, &format!("commit {}", c))?;
                }
                if sit == "S2" || sit == "S6s" {
                    for _ in 0..2 {
                        model.edit(&mut rng);
                        upd(&m, &model, "staged update")?;
                    }
                }
            }
            Ok(Sit { m, ad, peer: stranger()?, storage_applied: true })
        }
        "S8q" => {
            // more tracked objects than the 16-entry object cache holds, with string values that stress the scanner of
            // stored packs: trailing backslashes, escaped quotes, braces, backslash + quote sequences
            let strings = ["ends with a backslash\\", "quote\"inside", "brace}{brace", "bs-quote\\\"tail", "\\", "\\\\", "}\"{\\", "\\\"", "a\\\\\"b}", "{\"k\":\"v\\\\\"}"];
            let big = |round: usize| {
                let mut d = model.doc();
                for i in 0..24usize {
                    let s1 = strings[(i + round) % strings.len()];
                    let s2 = strings[(i * 3 + 1) % strings.len()];
                    d.insert(format!("q{:02}{}", i, F), json!({"_id": format!("q{:02}", i), "s": s1, "t": [s2, {"u": s1}], s2: i}));
                }
                d
            };
            let m = orch::open(&ad)?;
            orch::ge("update", || m.update(big(0)))?;
            commit_some(&m, "commit 1")?;
            orch::ge("update", || m.update(big(1)))?;
            commit_some(&m, "commit 2")?;
            Ok(Sit { m, ad, peer: stranger()?, storage_applied: true })
        }
        "S7v" | "S7d" => {
            // the LAST commit writes no pack: a value set back to one that is already stored (light -> dark -> light),
            // or a deletion only
            let m = orch::open(&ad)?;
            upd(&m, &model, "update")?;
            commit_some(&m, "commit 1")?;
            model.edit(&mut rng);
            upd(&m, &model, "update")?;
            commit_some(&m, "commit 2")?;
            if sit == "S7v" {
                orch::ge("update_object(o1, dark)", || m.update_object("o1", orch::obj(json!({"v": "dark"}))))?;
                commit_some(&m, "commit dark")?;
                orch::ge("update_object(o1, light)", || m.update_object("o1", orch::obj(json!({"v": model.o1}))))?;
            } else {
                orch::ge("delete_object(o1)", || m.delete_object("o1"))?;
            }
            commit_some(&m, "commit without pack")?;
            no_pack_in_last_block(&m)?;
            Ok(Sit { m, ad, peer: stranger()?, storage_applied: true })
        }
        "S3" | "S3s" => {
            let a = orch::open(&orch::mem())?;
            upd(&a, &model, "A.update")?;
            commit_some(&a, "A.commit 1")?;
            let mut b = orch::open(&ad)?;
            sync(&mut b, &a, "B takes A's first commit")?;
            for c in 2..=3 {
                model.edit(&mut rng);
                upd(&a, &model, "A.update")?;
                commit_some(&a, &format!("A.commit {}", c))?;
            }
            orch::ge("B.meld(A) without refresh", || b.meld(&a))?;
            if sit == "S3s" {
                orch::ge("B.update_object(o1)", || b.update_object("o1", orch::obj(json!({"v": 333}))))?;
            }
            Ok(Sit { m: b, ad, peer: a, storage_applied: false })
        }
        _ => {
            // S4*, S5*: A (subject) and B diverge from a common base
            let mut a = orch::open(&ad)?;
            upd(&a, &model, "A.update(base)")?;
            model.edit(&mut rng);
            upd(&a, &model, "A.update(base, second version)")?;
            commit_some(&a, "A.commit base")?;
            let mut b = orch::open(&orch::mem())?;
            sync(&mut b, &a, "B takes the base")?;
            let mut mb = model.clone();
            if sit.starts_with("S4") || sit == "S7r" {
                model.mutate(0);
                model.mutate(2);
                upd(&a, &model, "A.update")?;
                orch::ge("B.update_object(o1)", || b.update_object("o1", orch::obj(json!({"v": 900}))))?;
            } else if sit.starts_with("S5a") {
                model.items.push(("k5".into(), 5));
                mb.items.push(("k6".into(), 6));
                upd(&a, &model, "A.update (append k5)")?;
                upd(&b, &mb, "B.update (append k6)")?;
            } else {
                model.items.reverse();
                mb.items.remove(0);
                upd(&a, &model, "A.update (reverse)")?;
                upd(&b, &mb, "B.update (remove first)")?;
            }
            commit_some(&a, "A.commit")?;
            commit_some(&b, "B.commit")?;
            sync(&mut a, &b, "A melds B")?;
            let conflicts = orch::g(|| a.in_conflict()).map_err(|p| format!("panic in in_conflict: {}", p))?;
            let array_conflict = conflicts.iter().any(|o| o.starts_with('^'));
            if (sit.starts_with("S4") || sit == "S7r") && (array_conflict || !conflicts.contains("o1")) {
                return Err(format!("driver: S4 expects exactly an object conflict on o1, got {:?}", conflicts));
            }
            if sit.starts_with("S5") && !array_conflict {
                return Err(format!("driver: S5 expects an array conflict, got {:?}", conflicts));
            }
            if sit == "S7r" {
                // a commit that only records the resolution of the object conflict: no new content, no pack
                let w = orch::ge("get_winner(o1)", || a.get_winner("o1"))?;
                orch::ge("resolve_as(o1, winner)", || a.resolve_as("o1", &w))?;
                commit_some(&a, "commit of the resolution")?;
                no_pack_in_last_block(&a)?;
            }
            if sit.ends_with('s') {
                if sit.starts_with("S4") {
                    orch::ge("A.update_object(o2)", || a.update_object("o2", orch::obj(json!({"v": 444}))))?;
                } else {
                    orch::ge("A.update_object(o1)", || a.update_object("o1", orch::obj(json!({"v": 555}))))?;
                }
            }
            // the peer B lacks A's concurrent block; A's storage holds only applied blocks
            Ok(Sit { m: a, ad, peer: b, storage_applied: true })
        }
    }
}

#[derive(Clone, PartialEq)]
struct Obs {
    read: Value,
    objects: Vec<String>,
    contents: Value,
    conflicts: BTreeSet<String>,
    winners: Value,
    anchors: Vec<String>,
}

fn obs(m: &Melda) -> Obs {
    let st = orch::state(m);
    let objects: Vec<String> = st["objects"].as_array().map(|a| a.iter().filter_map(|x| x.as_str().map(|s| s.to_string())).collect()).unwrap_or_default();
    let mut contents = Map::new();
    for o in objects.iter().filter(|o| !o.starts_with('^')) {
        contents.insert(o.clone(), orch::res(orch::g(|| m.get_value(o, None).map(Value::Object))));
    }
    Obs {
        read: st["read"].clone(),
        objects,
        contents: Value::Object(contents),
        conflicts: orch::g(|| m.in_conflict()).unwrap_or_default(),
        winners: st["winners"].clone(),
        anchors: st["anchors"].as_array().map(|a| a.iter().filter_map(|x| x.as_str().map(|s| s.to_string())).collect()).unwrap_or_default(),
    }
}

struct Verdict {
    bad: Vec<String>,
    notes: Vec<String>,
}

impl Verdict {
    /// `committing`: array descriptors may leave the conflict set; `anchors`: the heads must be unchanged too
    fn same(&mut self, before: &Obs, after: &Obs, ctx: &str, committing: bool, anchors: bool) {
        if after.read != before.read {
            self.bad.push(format!("{}: read(None) changed: {} -> {}", ctx, before.read, after.read));
        }
        if after.objects != before.objects {
            self.bad.push(format!("{}: get_all_objects() changed: {:?} -> {:?}", ctx, before.objects, after.objects));
        }
        if after.contents != before.contents {
            let d = orch::first_difference(&json!({"c": after.contents}), &json!({"c": before.contents}), &["c"]).unwrap_or_default();
            self.bad.push(format!("{}: the value of a winner changed (after vs before); {}", ctx, d));
        }
        let ok = if committing {
            let plain = |s: &BTreeSet<String>| s.iter().filter(|o| !o.starts_with('^')).cloned().collect::<BTreeSet<String>>();
            plain(&after.conflicts) == plain(&before.conflicts) && after.conflicts.iter().all(|o| before.conflicts.contains(o))
        } else {
            after.conflicts == before.conflicts
        };
        if !ok {
            self.bad.push(format!("{}: in_conflict() changed: {:?} -> {:?}", ctx, before.conflicts, after.conflicts));
        }
        if anchors && after.anchors != before.anchors {
            self.bad.push(format!("{}: get_anchors() changed: {:?} -> {:?}", ctx, before.anchors, after.anchors));
        }
        if after.winners != before.winners {
            self.notes.push(format!("{}: winner revision strings changed", ctx));
        }
    }
}

const OPS: [&str; 15] = [
    "snapshot-only",
    "commit-propagates",
    "commit",
    "commit-info",
    "commit-nothing",
    "snapshot",
    "meld-in",
    "meld-out",
    "refresh",
    "meld-refresh-nothing-new",
    "refresh-after-commit",
    "reload-after-commit",
    "reload",
    "reopen",
    "stage-export",
];

fn staged_sit(sit: &str) -> bool {
    sit == "S1" || sit == "S2" || (sit.ends_with('s') && sit != "S2c")
}

/// is the operation defined in the situation?
fn defined(sit: &str, op: &str) -> bool {
    let staged = staged_sit(sit);
    let unapplied = sit.starts_with("S3");
    match op {
        "commit" | "commit-info" => staged,
        // the peer shares the subject's history only in the diverged situations
        "commit-propagates" => staged && (sit.starts_with("S4") || sit.starts_with("S5")),
        "refresh-after-commit" | "reload-after-commit" => staged && !unapplied,
        "commit-nothing" => !staged,
        "refresh" | "meld-refresh-nothing-new" | "reload" | "reopen" => !staged && !unapplied,
        _ => true,
    }
}

fn may_hang(sit: &str, op: &str) -> bool {
    sit.starts_with("S5") && matches!(op, "commit" | "commit-info" | "commit-propagates" | "snapshot" | "refresh-after-commit" | "reload-after-commit")
}

fn reopened(s: &Sit, v: &mut Verdict, after: &Obs, ctx: &str) {
    if !s.storage_applied {
        return;
    }
    match orch::open(&s.ad) {
        Err(e) => v.bad.push(format!("{}: reopen: {}", ctx, e)),
        Ok(f) => {
            let of = obs(&f);
            // the reopened replica is compared with the subject as it is now (same storage, nothing staged)
            v.same(after, &of, &format!("{}, reopened replica vs the subject", ctx), false, true);
        }
    }
}

fn run_case(sit: &str, script: usize, seed: u64, op: &str) -> Result<Verdict, String> {
    let caps = sit.starts_with("S6");
    if caps {
        std::env::set_var("MELDA_ARRAYDESCRIPTORS_CACHE_CAP", "1");
        std::env::set_var("MELDA_DATA_CACHE_CAP", "1");
    }
    let r = run_case_inner(sit, script, seed, op);
    if caps {
        std::env::remove_var("MELDA_ARRAYDESCRIPTORS_CACHE_CAP");
        std::env::remove_var("MELDA_DATA_CACHE_CAP");
    }
    r
}

fn run_case_inner(sit: &str, script: usize, seed: u64, op: &str) -> Result<Verdict, String> {
    let mut s = build(sit, script, seed)?;
    let mut v = Verdict { bad: vec![], notes: vec![] };
    let staged = orch::g(|| s.m.has_staging()).map_err(|p| format!("panic in has_staging: {}", p))?;
    if staged != staged_sit(sit) {
        return Err(format!("driver: situation {} has_staging() = {}", sit, staged));
    }
    let before = obs(&s.m);
    if before.read.get("ok").is_none() {
        return Err(format!("driver: read(None) before the operation is {}", before.read));
    }
    let info = Some(orch::obj(json!({"who": "maintenance", "n": [1, 2.5]})));
    let commit = |m: &Melda, v: &mut Verdict, i: Option<Map<String, Value>>, ctx: &str| -> bool {
        match orch::g(|| m.commit(i)) {
            Ok(Ok(Some(_))) => true,
            Ok(Ok(None)) => {
                v.bad.push(format!("{}: commit with staged changes returned Ok(None)", ctx));
                false
            }
            Ok(Err(e)) => {
                v.bad.push(format!("{}: commit is Err({})", ctx, e));
                false
            }
            Err(p) => {
                v.bad.push(format!("{}: panic: commit: {}", ctx, p.lines().next().unwrap_or("")));
                false
            }
        }
    };
    match op {
        "commit" | "commit-info" => {
            if commit(&s.m, &mut v, if op == "commit" { None } else { info }, op) {
                let after = obs(&s.m);
                v.same(&before, &after, "after the commit", true, false);
                reopened(&s, &mut v, &after, "after the commit");
            }
        }
        "commit-propagates" => {
            if commit(&s.m, &mut v, None, op) {
                let after = obs(&s.m);
                v.same(&before, &after, "after the commit", true, false);
                match sync(&mut s.peer, &s.m, "the peer melds the subject and refreshes") {
                    Err(e) => v.bad.push(e),
                    Ok(()) => {
                        let op_ = obs(&s.peer);
                        if op_.read != after.read {
                            v.bad.push(format!("the peer after meld + refresh reads {} but the committing replica {}", op_.read, after.read));
                        }
                        if op_.conflicts != after.conflicts {
                            v.bad.push(format!("the peer after meld + refresh has conflicts {:?} but the committing replica {:?}", op_.conflicts, after.conflicts));
                        }
                    }
                }
            }
        }
        "commit-nothing" => {
            let items = orch::items_of(&s.ad)?.len();
            match orch::g(|| s.m.commit(None)) {
                Ok(Ok(None)) => {}
                other => v.bad.push(format!("commit with nothing staged is {:?}", other.map(|r| r.map_err(|e| e.to_string())))),
            }
            v.same(&before, &obs(&s.m), "after commit with nothing staged", false, true);
            if orch::items_of(&s.ad)?.len() != items {
                v.bad.push("commit with nothing staged wrote an item".into());
            }
        }
        "snapshot-only" => {
            match orch::g(|| s.m.stage_full_snapshot()) {
                Ok(Ok(())) => {}
                Ok(Err(e)) => v.bad.push(format!("stage_full_snapshot is Err({})", e)),
                Err(p) => v.bad.push(format!("panic: stage_full_snapshot: {}", p.lines().next().unwrap_or(""))),
            }
            v.same(&before, &obs(&s.m), "after stage_full_snapshot", false, true);
            match orch::g(|| s.m.stage_full_snapshot()) {
                Ok(Ok(())) => v.same(&before, &obs(&s.m), "after a second stage_full_snapshot (first one still staged)", false, true),
                other => v.bad.push(format!("second stage_full_snapshot is {:?}", other.map(|r| r.map_err(|e| e.to_string())))),
            }
        }
        "snapshot" => {
            match orch::g(|| s.m.stage_full_snapshot()) {
                Ok(Ok(())) => {}
                Ok(Err(e)) => v.bad.push(format!("stage_full_snapshot is Err({})", e)),
                Err(p) => v.bad.push(format!("panic: stage_full_snapshot: {}", p.lines().next().unwrap_or(""))),
            }
            v.same(&before, &obs(&s.m), "after stage_full_snapshot", false, true);
            if orch::g(|| s.m.has_staging()).unwrap_or(false) && commit(&s.m, &mut v, None, "commit after stage_full_snapshot") {
                let after = obs(&s.m);
                v.same(&before, &after, "after stage_full_snapshot + commit", true, false);
                reopened(&s, &mut v, &after, "after stage_full_snapshot + commit");
                // a second snapshot right away has nothing left to do
                match orch::g(|| s.m.stage_full_snapshot()) {
                    Ok(Ok(())) => v.same(&before, &obs(&s.m), "after a second stage_full_snapshot", true, false),
                    other => v.bad.push(format!("second stage_full_snapshot is {:?}", other.map(|r| r.map_err(|e| e.to_string())))),
                }
            }
        }
        "meld-in" | "meld-out" => {
            let peer_before = obs(&s.peer);
            let r = if op == "meld-in" { orch::g(|| s.m.meld(&s.peer)) } else { orch::g(|| s.peer.meld(&s.m)) };
            match r {
                Ok(Ok(_)) => {}
                Ok(Err(e)) => v.bad.push(format!("meld is Err({})", e)),
                Err(p) => v.bad.push(format!("panic: meld: {}", p.lines().next().unwrap_or(""))),
            }
            v.same(&before, &obs(&s.m), "subject after meld without refresh", false, true);
            v.same(&peer_before, &obs(&s.peer), "peer after meld without refresh", false, true);
        }
        "refresh" => {
            for n in 1..=2 {
                match orch::g(|| s.m.refresh()) {
                    Ok(Ok(())) => v.same(&before, &obs(&s.m), &format!("after refresh #{} with nothing new in storage", n), false, true),
                    other => v.bad.push(format!("refresh #{} is {:?}", n, other.map(|r| r.map_err(|e| e.to_string())))),
                }
            }
        }
        "meld-refresh-nothing-new" => {
            let mut p = orch::open(&orch::mem())?;
            sync(&mut p, &s.m, "a new peer copies the subject")?;
            match orch::g(|| s.m.meld(&p)) {
                Ok(Ok(w)) if w.is_empty() => {}
                Ok(Ok(w)) => v.bad.push(format!("melding a peer that holds nothing new wrote {:?}", w)),
                other => v.bad.push(format!("meld is {:?}", other.map(|r| r.map_err(|e| e.to_string())))),
            }
            match orch::g(|| s.m.refresh()) {
                Ok(Ok(())) => v.same(&before, &obs(&s.m), "after meld (nothing new) + refresh", false, true),
                other => v.bad.push(format!("refresh is {:?}", other.map(|r| r.map_err(|e| e.to_string())))),
            }
        }
        "refresh-after-commit" | "reload-after-commit" => {
            if commit(&s.m, &mut v, None, op) {
                let committed = obs(&s.m);
                v.same(&before, &committed, "after the commit", true, false);
                for n in 1..=2 {
                    let r = if op == "refresh-after-commit" { orch::g(|| s.m.refresh()) } else { orch::g(|| s.m.reload()) };
                    match r {
                        Ok(Ok(())) => v.same(&committed, &obs(&s.m), &format!("after the own commit and {} #{}", if op == "refresh-after-commit" { "refresh" } else { "reload" }, n), false, true),
                        other => v.bad.push(format!("{} #{} after the own commit is {:?}", op, n, other.map(|r| r.map_err(|e| e.to_string())))),
                    }
                }
            }
        }
        "reload" => match orch::g(|| s.m.reload()) {
            Ok(Ok(())) => {
                v.same(&before, &obs(&s.m), "after reload with everything already applied", false, true);
                match orch::g(|| s.m.reload()) {
                    Ok(Ok(())) => v.same(&before, &obs(&s.m), "after a second reload", false, true),
                    other => v.bad.push(format!("second reload is {:?}", other.map(|r| r.map_err(|e| e.to_string())))),
                }
            }
            other => v.bad.push(format!("reload is {:?}", other.map(|r| r.map_err(|e| e.to_string())))),
        },
        "reopen" => reopened(&s, &mut v, &before, "nothing staged"),
        _ => {
            let e1 = orch::res(orch::g(|| s.m.stage().map(|x| x.unwrap_or(Value::Null))));
            let e2 = orch::res(orch::g(|| s.m.stage().map(|x| x.unwrap_or(Value::Null))));
            if e1.get("ok").is_none() {
                v.bad.push(format!("stage() is {}", e1));
            }
            if e1 != e2 {
                v.bad.push("two stage() calls in a row return different values".into());
            }
            if staged != (e1["ok"] != Value::Null) {
                v.bad.push(format!("has_staging() = {} but stage() = {}", staged, e1));
            }
            v.same(&before, &obs(&s.m), "after stage()", false, true);
            if orch::g(|| s.m.has_staging()).ok() != Some(staged) {
                v.bad.push("has_staging() changed by stage()".into());
            }
        }
    }
    let _ = &mut s;
    Ok(v)
}

enum Outcome {
    Done(Result<Verdict, String>),
    Panic(String),
}

fn spawn_case(sit: &'static str, script: usize, seed: u64, op: &'static str) -> Receiver<Outcome> {
    let (tx, rx) = channel();
    let _ = std::thread::Builder::new().stack_size(8 << 20).spawn(move || {
        let o = match orch::g(|| run_case(sit, script, seed, op)) {
            Ok(r) => Outcome::Done(r),
            Err(p) => Outcome::Panic(p),
        };
        let _ = tx.send(o);
    });
    rx
}

struct Tally {
    hangs: Vec<String>,
    notes: u64,
    note_example: Option<String>,
}

fn case_id(sit: &str, script: usize, op: &str) -> String {
    if script == 0 {
        format!("{}:{}", sit, op)
    } else {
        format!("{}#{}:{}", sit, script, op)
    }
}

fn settle(out: &Out, tally: &mut Tally, sit: &str, script: usize, seed: u64, op: &str, rx: &Receiver<Outcome>, wait: Duration) {
    let id = case_id(sit, script, op);
    let input = json!({"situation": sit, "script": script, "seed": seed, "operation": op});
    out.case(&id, true);
    match rx.recv_timeout(wait) {
        Ok(Outcome::Done(Ok(v))) => {
            if !v.notes.is_empty() {
                tally.notes += 1;
                if tally.note_example.is_none() {
                    tally.note_example = Some(format!("{}: {}", id, v.notes[0]));
                }
            }
            if !v.bad.is_empty() {
                let what = v.bad.join(" || ");
                eprintln!("[maintenance] FAIL {} | {}", id, what);
                out.fail(&format!("{}", op), &id, input, &what);
            }
        }
        Ok(Outcome::Done(Err(e))) => {
            eprintln!("[maintenance] FAIL {} | setup: {}", id, e);
            out.fail("setup", &id, input, &format!("the situation could not be built: {}", e));
        }
        Ok(Outcome::Panic(p)) => {
            let what = format!("panic: {}", p.lines().next().unwrap_or(""));
            eprintln!("[maintenance] FAIL {} | {}", id, what);
            out.fail("panic", &id, input, &what);
        }
        Err(_) => {
            let hid = format!("hang:{}", id);
            eprintln!("[maintenance] HANG {}", hid);
            tally.hangs.push(id.clone());
            out.fail(
                "hang",
                &hid,
                input,
                &format!("the case did not finish within its time limit ({} s; {} s for the quick tier's known-to-hang group){} — hang (thread abandoned, oracle goes on)", LIMIT.as_secs(), 2, if may_hang(sit, op) { "; commit while an array is in conflict" } else { "" }),
            );
        }
    }
}

fn work(thorough: bool, seed: u64, out: &Out) {
    let scripts: usize = if thorough { 12 } else { 2 };
    let mut tally = Tally { hangs: vec![], notes: 0, note_example: None };
    // cases known to hang on this version are started first and collected at the end (they wait in parallel)
    let park_limit = if thorough { LIMIT } else { Duration::from_millis(2000) };
    let started = Instant::now();
    let mut parked: Vec<(&'static str, usize, &'static str, Receiver<Outcome>)> = vec![];
    for script in 0..scripts {
        for sit in SITUATIONS {
            for op in OPS {
                if defined(sit, op) && may_hang(sit, op) {
                    parked.push((sit, script, op, spawn_case(sit, script, seed, op)));
                }
            }
        }
    }
    // the capped-cache situations last: the caps are process-wide environment variables
    for caps in [false, true] {
        for script in 0..scripts {
            for sit in SITUATIONS.iter().copied().filter(|s| s.starts_with("S6") == caps) {
                for op in OPS {
                    if !defined(sit, op) || may_hang(sit, op) {
                        continue;
                    }
                    out.begin(&case_id(sit, script, op), json!({"situation": sit, "script": script, "seed": seed, "operation": op}));
                    let rx = spawn_case(sit, script, seed, op);
                    settle(out, &mut tally, sit, script, seed, op, &rx, LIMIT);
                }
            }
        }
        if !caps {
            out.begin("collecting the cases that may hang", json!({}));
            for (sit, script, op, rx) in &parked {
                out.begin(&case_id(sit, *script, op), json!({"situation": sit, "script": script, "seed": seed, "operation": op}));
                let left = park_limit.checked_sub(started.elapsed()).unwrap_or(Duration::from_millis(50)).max(Duration::from_millis(50));
                settle(out, &mut tally, sit, *script, seed, op, rx, left);
            }
        }
    }
    if !tally.hangs.is_empty() {
        // one entry per situation:operation, with the number of scripts that hung
        let mut per: std::collections::BTreeMap<String, u64> = std::collections::BTreeMap::new();
        for h in &tally.hangs {
            let (sit, op) = h.split_once(':').unwrap_or((h.as_str(), ""));
            *per.entry(format!("{}:{}", sit.split('#').next().unwrap_or(sit), op)).or_insert(0) += 1;
        }
        let list: Vec<String> = per.iter().map(|(k, n)| format!("{} x{}", k, n)).collect();
        out.note(&format!("{} case(s) hung: {}", tally.hangs.len(), list.join(", ")));
        out.not_exhaustive();
    }
    if tally.notes > 0 {
        out.note(&format!("note (not a failure): winner revision strings changed in {} case(s), e.g. {}", tally.notes, tally.note_example.unwrap_or_default()));
    }
}

pub fn run(thorough: bool, seed: u64) -> Report {
    let mut rep = Report::new(
        "maintenance",
        if thorough {
            "17 situations (S1 staged only; S2c/S2 committed / + staged; S3/S3s melded but not refreshed; S4/S4s object conflict; S5a/S5as, S5b/S5bs array conflict append|append and reverse|remove; S7v/S7d/S7r last block without pack: value set back, deletion only, resolution only; S8q 24 objects with backslash / quote / brace strings; S6/S6s both LRU caches capped at 1) x 12 edit scripts (script 0 fixed, 11 seeded) x every defined operation out of {snapshot-only, commit-propagates, commit, commit-info, commit-nothing, snapshot, meld-in, meld-out, refresh, meld-refresh-nothing-new, refresh-after-commit, reload-after-commit, reload, reopen, stage-export}"
        } else {
            "17 situations (S1 staged only; S2c/S2 committed / + staged; S3/S3s melded but not refreshed; S4/S4s object conflict; S5a/S5as, S5b/S5bs array conflict append|append and reverse|remove; S7v/S7d/S7r last block without pack: value set back, deletion only, resolution only; S8q 24 objects with backslash / quote / brace strings; S6/S6s both LRU caches capped at 1) x 2 edit scripts (script 0 fixed, 1 seeded) x every defined operation out of {snapshot-only, commit-propagates, commit, commit-info, commit-nothing, snapshot, meld-in, meld-out, refresh, meld-refresh-nothing-new, refresh-after-commit, reload-after-commit, reload, reopen, stage-export}"
        },
        "exhaustive over situations x scripts x defined operations; one case each (situation rebuilt, observation before == after, reopen where something was persisted); every case non-trivial; each case guarded in its own thread with a 5 s limit, unfinished cases are booked as hang:<case id> and the oracle goes on",
    );
    if std::env::var_os("RAYON_NUM_THREADS").is_none() {
        std::env::set_var("RAYON_NUM_THREADS", "2");
    }
    let mut classes = FailureClasses::new(1);
    classes.max = 1;
    orch::supervise(&mut rep, &mut classes, move |out| work(thorough, seed, out));
    classes.summary("maintenance");
    rep
}

pub fn replay(case: &Value) -> Value {
    let inp = &case["input"];
    let sit = SITUATIONS.iter().find(|s| Some(**s) == inp["situation"].as_str()).copied();
    let op = OPS.iter().find(|o| Some(**o) == inp["operation"].as_str()).copied();
    let (sit, op) = match (sit, op) {
        (Some(s), Some(o)) => (s, o),
        _ => return json!({"reproduced": false, "error": "bad input"}),
    };
    let script = inp["script"].as_u64().unwrap_or(0) as usize;
    let seed = inp["seed"].as_u64().unwrap_or(0);
    let rx = spawn_case(sit, script, seed, op);
    let want_hang = case["case_id"].as_str().unwrap_or("").starts_with("hang:");
    match rx.recv_timeout(LIMIT) {
        Ok(Outcome::Done(Ok(v))) if v.bad.is_empty() => json!({"reproduced": false}),
        Ok(Outcome::Done(Ok(v))) => json!({"reproduced": !want_hang, "what": v.bad.join(" || ")}),
        Ok(Outcome::Done(Err(e))) => json!({"reproduced": !want_hang, "what": format!("the situation could not be built: {}", e)}),
        Ok(Outcome::Panic(p)) => json!({"reproduced": !want_hang, "what": format!("panic: {}", p.lines().next().unwrap_or(""))}),
        Err(_) => json!({"reproduced": want_hang, "class": "hang", "what": format!("the case did not finish within {} s", LIMIT.as_secs())}),
    }
}
