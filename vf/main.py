"""./check <property> [--tier quick|thorough] [--replay FILE] [--rebaseline]

Decides one property: runs the Verus units that carry its obligations on functions re-extracted
from /repo's working tree, classifies every obligation, runs canaries and bounded stand-ins,
writes evidence/<id>.json, prints VIOLATION / KNOWN-FINDING lines.  Exit codes: DESIGN.md §1.4.
"""
import concurrent.futures as cf
import fnmatch
import json
import os
import shutil
import sys
import time
import tomllib

from . import gen, verus, native

VERIF = gen.VERIF
EVID = os.environ.get("VERIF_EVIDENCE_DIR") or os.path.join(VERIF, "evidence")
REPLAYS = os.environ.get("VERIF_REPLAY_DIR") or os.path.join(VERIF, "replays")


def load_props():
    with open(os.path.join(VERIF, "props.toml"), "rb") as f:
        return tomllib.load(f)


def load_baseline(unit):
    p = os.path.join(VERIF, "units", unit, "baseline.json")
    if os.path.exists(p):
        return json.load(open(p))
    return {"obligations": {}, "hashes": {}}


def load_known():
    p = os.path.join(VERIF, "known_findings.json")
    if os.path.exists(p):
        return json.load(open(p))
    return []


def obligation_unit(ob):
    return ob.split("::")[0]


def owning_extract(unit_res, ob):
    """id of the extracted fn item an obligation name corresponds to (None for preamble fns)."""
    short = ob.split("::", 1)[1]
    for k in unit_res.hashes:
        if k == short:
            return k
    # ids may carry a module prefix the verifier's name does not have (`utils::unflatten` vs `flat::unflatten`) or lack
    # one it has (`cor::..`): accept a unique match on the trailing path components
    cand = [k for k in unit_res.hashes if not k.startswith(("struct ", "const ")) and (k.endswith("::" + short) or short.endswith("::" + k))]
    if len(cand) == 1:
        return cand[0]
    return None


def rebaseline(units):
    for u in units:
        r = verus.run(u)
        if r.status != "ok":
            print("unit %s: status %s\n%s" % (u, r.status, r.detail or "\n".join(e["text"] for e in r.errors)))
            print(r.raw_stderr[-3000:])
            return 1
        base = {"obligations": {f: {"mode": d["mode"]} for f, d in sorted(r.functions.items()) if f.startswith(u + "::")},
                "hashes": r.hashes, "locals": r.locals}
        with open(os.path.join(VERIF, "units", u, "baseline.json"), "w") as f:
            json.dump(base, f, indent=1, sort_keys=True)
        print("unit %s: %d obligations, %d extracted items, %.1fs" % (u, len(base["obligations"]), len(r.hashes), r.wall))
        shutil.rmtree(os.path.dirname(r.path), ignore_errors=True)
    return 0


def main(argv):
    args = argv[1:]
    if not args:
        print(__doc__)
        return 2
    if args[0] == "--rebaseline":
        props = load_props()
        units = args[1:] or sorted({u for p in props["property"].values() for u in p.get("units", [])})
        return rebaseline(units)
    pid = args[0]
    tier = os.environ.get("VERIF_TIER", "quick")
    replay = None
    i = 1
    while i < len(args):
        if args[i] == "--tier":
            tier = args[i + 1]
            i += 2
        elif args[i] == "--replay":
            replay = args[i + 1]
            i += 2
        else:
            i += 1
    seed = int(os.environ.get("VERIF_SEED", "0") or 0)
    props = load_props()
    if pid not in props["property"]:
        print("unknown property %s" % pid)
        return 2
    if replay:
        return do_replay(pid, props["property"][pid], replay)
    return check(pid, props["property"][pid], tier, seed)


def match_obs(patterns, names):
    out = []
    for n in names:
        if any(fnmatch.fnmatchcase(n, p) for p in patterns):
            out.append(n)
    return out


def check(pid, P, tier, seed):
    t0 = time.time()
    os.makedirs(EVID, exist_ok=True)
    os.makedirs(REPLAYS, exist_ok=True)
    os.makedirs(verus.BUILD, exist_ok=True)
    units = P.get("units", [])
    known = [k for k in load_known() if k.get("property") == pid and k.get("status") == "known"]
    workdir = os.path.join(verus.BUILD, "run-%s-%d" % (pid, os.getpid()))
    os.makedirs(workdir, exist_ok=True)
    results, canaries = {}, {}
    want_canary = P.get("canary", True)
    with cf.ThreadPoolExecutor(max_workers=16) as ex:
        futs = {}
        for u in units:
            futs[ex.submit(verus.run, u, False, None, None, workdir)] = ("main", u)
            if want_canary:
                # a twin that fails by exhausting a small resource limit still fails; a vacuous one verifies at once
                futs[ex.submit(verus.run, u, True, None, (None if tier == "thorough" else 1), workdir)] = ("canary", u)
        nat_fut = None
        standins = [s for s in P.get("standin", []) if tier == "thorough" or s.get("quick", True)]
        if standins:
            nat_fut = ex.submit(native.run_standins, standins, tier, seed)
        stability = {}
        if tier == "thorough":
            # second pass with another SMT seed and half the resource limit: exposes proofs that only just go through
            for u in units:
                futs[ex.submit(verus.run, u, False, None, 5, workdir + "-stab", 900, ["--smt-option", "smt.random_seed=%d" % (7 + seed)])] = ("stab", u)
        for f in cf.as_completed(list(futs)):
            kind, u = futs[f]
            if kind == "stab":
                stability[u] = f.result()
            else:
                (results if kind == "main" else canaries)[u] = f.result()
        nat = nat_fut.result() if nat_fut else None

    undecided, violations, known_hits = [], [], []
    fallback = []
    obligations, discharged = [], []
    per_ob = {}
    func_list = []
    assumptions = list(P.get("assumptions", []))
    rule_log = []
    for u in units:
        r = results[u]
        base = load_baseline(u)
        pats = [o for o in P.get("obligations", []) if obligation_unit(o) == u]
        want = match_obs(pats, sorted(base["obligations"]))
        if not base["obligations"] and r.status not in ("lost", "frontend", "tool"):
            want = match_obs(pats, sorted(r.functions))
            undecided.append("unit %s has no committed baseline" % u)
        if r.status in ("lost", "frontend", "tool"):
            undecided.append("unit %s: %s: %s" % (u, r.status, r.detail[:1500]))
            for ob in want:
                obligations.append(ob)
                per_ob[ob] = {"status": "undecided:" + r.status}
            # the verifier could not be run on the current text: fall back to a bounded search for a
            # concrete input on which the real code violates one of the unit's contracts
            for ob in want:
                if ob in P.get("cex", {}) or P.get("cex_all"):
                    fallback.append(ob)
            continue
        rule_log += ["%s/%s" % (u, l) for l in r.log]
        for a in r.assumption_scan:
            assumptions.append("%s.rs %s" % (u, a))
        failed = r.failed_fns()
        retried = None
        for ob in want:
            obligations.append(ob)
            d = r.functions.get(ob)
            if d is None and ob not in failed:
                # obligation vanished from the verifier's report
                undecided.append("obligation %s not reported by verus" % ob)
                per_ob[ob] = {"status": "undecided:not-reported"}
                continue
            if ob in failed:
                ext = owning_extract(r, ob)
                changed = ext is not None and base["hashes"].get(ext) != r.hashes.get(ext)
                ctx_changed = any(base["hashes"].get(k) != v for k, v in r.hashes.items() if k.startswith(("struct ", "const ")))
                msgs = [e for e in r.errors if e["fn"] == ob]
                if not (changed or ctx_changed):
                    # unchanged source and failing proof: solver instability -> retry once
                    if retried is None:
                        retried = verus.run(u, False, None, 2 * 10, workdir + "-retry")
                    if retried.status == "ok" or ob not in retried.failed_fns():
                        discharged.append(ob)
                        per_ob[ob] = {"status": "discharged-on-retry"}
                        continue
                    # unchanged source (it verified when the baseline was recorded) and the proof fails twice:
                    # solver / tool instability, not a property violation
                    undecided.append("obligation %s fails on unchanged source: %s" % (ob, "; ".join(m["msg"] for m in msgs)))
                    per_ob[ob] = {"status": "undecided:unstable"}
                    continue
                violations.append({"obligation": ob, "unit": u, "messages": msgs, "result": r, "extract": ext})
                per_ob[ob] = {"status": "FAILED", "messages": [m["msg"] for m in msgs]}
            else:
                discharged.append(ob)
                per_ob[ob] = {"status": "discharged", "time_us": d["time_us"], "rlimit": d["rlimit"], "mode": d["mode"]}
        for ob in want:
            if ob in r.functions:
                func_list.append(ob)
        # vacuity guard (a): obligation count
        if len(want) < len(match_obs(pats, sorted(base["obligations"]))):
            undecided.append("unit %s: fewer obligations than baseline" % u)
        # vacuity guard (b): canaries must fail
        if want_canary:
            c = canaries[u]
            if c.status in ("lost", "frontend", "tool"):
                undecided.append("canary unit %s: %s %s" % (u, c.status, c.detail[:400]))
            else:
                for fn, d in c.functions.items():
                    short = fn.split("::")[-1]
                    if short.startswith("canary_") and d["success"]:
                        undecided.append("VACUOUS: canary twin %s verified `ensures false`" % fn)
    # ---- bounded stand-ins
    bounded = []
    nat_viol = []
    if nat is not None:
        for s in nat:
            bounded.append({k: s[k] for k in s if k not in ("failures",)})
            if s.get("status") == "undecided":
                undecided.append("stand-in %s: %s" % (s["name"], s.get("detail", "")[:800]))
            for fl in s.get("failures", []):
                cid = str(fl.get("case_id", ""))
                if any(cid.startswith(px) for px in s.get("ignore_prefix", [])):
                    # a failure of ANOTHER property (e.g. the commit hang, C08: not applicable to this technique)
                    bounded[-1].setdefault("out_of_scope_failures", []).append({"case_id": cid, "what": fl.get("what", "")[:300]})
                    continue
                nat_viol.append((s, fl))

    # ---- violations -> replay files, counterexample search
    out_lines = []
    exit_code = 0
    n_viol = 0
    for v in violations:
        ob = v["obligation"]
        kf = [k for k in known if k.get("obligation") == ob]
        if kf:
            known_hits.append(kf[0])
            continue
        cex = native.search_counterexample(ob, P)
        rp = write_replay(pid, ob, v, cex)
        n_viol += 1
        out_lines.append("VIOLATION property=%s replay=%s%s" % (pid, rp, "" if cex and cex.get("case") is not None else " no-failing-input-found"))
    done_oracles = set(b["name"] for b in bounded)
    for ob in fallback:
        oracle = P.get("cex", {}).get(ob) or P.get("cex_all")
        if oracle in done_oracles:
            continue
        done_oracles.add(oracle)
        cex = native.search_counterexample(ob, P)
        if cex and cex.get("case") is not None:
            kf = [k for k in known if k.get("case") and str(cex["case"].get("case_id", "")).startswith(k["case"])]
            if kf:
                known_hits.append(kf[0])
                continue
            rp = write_replay(pid, ob, None, cex)
            n_viol += 1
            out_lines.append("VIOLATION property=%s replay=%s" % (pid, rp))
    for s, fl in nat_viol:
        kf = [k for k in known if k.get("case") and str(fl.get("case_id", "")).startswith(k["case"])]
        if kf:
            known_hits.append(kf[0])
            continue
        rp = write_replay(pid, "standin:" + s["name"], None, {"oracle": s["name"], "case": fl})
        n_viol += 1
        out_lines.append("VIOLATION property=%s replay=%s" % (pid, rp))
    for k in known_hits:
        print("KNOWN-FINDING: property=%s %s" % (pid, k.get("what", "")))
    if n_viol:
        exit_code = 1
    elif undecided:
        exit_code = 2

    # ---- evidence
    samples = []
    for ob in discharged[:6]:
        samples.append({"obligation": ob, **per_ob[ob]})
    level = P.get("level", "proof")
    cov = {
        "obligations": len(obligations),
        "discharged": len(discharged),
        "checker_cmd": "; ".join(sorted({results[u].cmd for u in units if results[u].cmd})) or "verus",
        "trusted_base": P.get("trusted_base", []) + ["Verus 0.2026.09.13 + bundled Z3", "vstd std specifications", "extractor /verif/vf (rules logged in rule_instances)"],
        "backend": "Verus -> Z3 (bundled)",
        "functions_under_contract": sorted(set(func_list)),
        "per_obligation": per_ob,
        "solver_time_s": round(sum(d.get("time_us", 0) for d in per_ob.values()) / 1e6, 3),
        "rule_instances": rule_log,
        "extracted_sources": {u: results[u].hashes for u in units},
        "stability_pass": {u: {"status": r.status, "failed": sorted(r.failed_fns())} for u, r in stability.items()},
        "canaries": {u: {fn: ("failed-as-required" if not d["success"] else "VERIFIED(vacuous!)") for fn, d in canaries[u].functions.items() if fn.split("::")[-1].startswith("canary_")} for u in canaries if canaries[u].status not in ("lost", "frontend", "tool")},
        "bounded": bounded,
        "samples": samples or [{"note": "no obligation discharged"}],
        "undecided": undecided,
        "not_decided": P.get("not_decided", []),
        "explanation": P.get("explanation", ""),
    }
    if bounded:
        cov["evaluations"] = sum(b.get("cases", 0) for b in bounded)
        cov["distinct_nontrivial"] = sum(b.get("distinct_nontrivial", 0) for b in bounded)
        cov["rule"] = "bounded stand-ins (never counted as proved): " + "; ".join("%s: %s" % (b["name"], b.get("rule", "")) for b in bounded)
    ev = {
        "property_id": pid, "tier": tier if tier in ("quick", "thorough") else "quick", "seed": seed, "level": level,
        "coverage": cov, "assumptions": assumptions, "wall_s": round(time.time() - t0, 2), "violations": n_viol,
    }
    with open(os.path.join(EVID, pid + ".json"), "w") as f:
        json.dump(ev, f, indent=1, default=str)
    for l in out_lines:
        print(l)
    if undecided:
        for u in undecided:
            print("UNDECIDED: " + u.replace("\n", " | ")[:1500])
    print("property %s: %d/%d obligations discharged, %d violation(s), %d undecided, %d known finding(s), %.1fs" % (
        pid, len(discharged), len(obligations), n_viol, len(undecided), len(known_hits), time.time() - t0))
    shutil.rmtree(workdir, ignore_errors=True)
    shutil.rmtree(workdir + "-retry", ignore_errors=True)
    shutil.rmtree(workdir + "-stab", ignore_errors=True)
    return exit_code


_replay_seq = [0]


def write_replay(pid, ob, v, cex):
    _replay_seq[0] += 1
    name = "%s_%s_%d.json" % (pid, "".join(c if c.isalnum() else "_" for c in ob), _replay_seq[0])
    path = os.path.join(REPLAYS, name)
    doc = {"property": pid, "obligation": ob, "native": cex}
    if v is not None:
        r = v["result"]
        doc["verus_messages"] = [m["text"] for m in v["messages"]] or [e["text"] for e in r.errors][:6]
        doc["verus_cmd"] = r.cmd
        doc["unit"] = v["unit"]
        try:
            text = open(r.path).read()
            doc["extracted_function_sha"] = r.hashes.get(v["extract"]) if v["extract"] else None
            # the extracted function text as handed to Verus
            short = ob.split("::")[-1]
            idx = text.find("fn " + short)
            doc["verified_text_excerpt"] = text[max(0, idx - 200): idx + 6000] if idx >= 0 else ""
        except Exception:
            pass
    with open(path, "w") as f:
        json.dump(doc, f, indent=1, default=str)
    return path


def do_replay(pid, P, path):
    doc = json.load(open(path))
    ok = True
    ob = doc.get("obligation", "")
    if not ob.startswith("standin:"):
        u = doc.get("unit") or obligation_unit(ob)
        r = verus.run(u)
        failed = ob in r.failed_fns()
        print("verus obligation %s: %s" % (ob, "FAILS (reproduced)" if failed else r.status))
        for e in r.errors:
            if e["fn"] == ob:
                print(e["text"])
        ok = ok and failed
    nat = doc.get("native")
    if nat and nat.get("case") is not None:
        rr = native.replay_case(nat)
        print("native replay: %s" % json.dumps(rr)[:2000])
        ok = ok and rr.get("reproduced", False)
    return 1 if ok else 0


if __name__ == "__main__":
    sys.exit(main(sys.argv))
