"""Unit generation: extract the contracted functions from /repo's working tree, rewrite with the
unit's rules, splice contract clauses at structural anchors, emit one Verus file (DESIGN.md §1.2)."""
import hashlib
import os
import re
import tomllib

from . import rlex, rules

VERIF = os.path.dirname(os.path.dirname(os.path.abspath(__file__)))
REPO = os.environ.get("MELDA_REPO", "/repo")


class LostAnchor(Exception):
    """function / loop / struct field not found: exit 2, never an alarm"""


def sha(s):
    return hashlib.sha256(s.encode()).hexdigest()


def norm(s):
    """whitespace-insensitive normal form used for source hashes (comments already stripped)."""
    toks = rlex.code_toks(s)
    return " ".join(t.text for t in toks)



_KW = {"mut", "ref", "self", "Some", "Ok", "Err", "None", "_", "true", "false", "in", "let", "if", "else", "match", "move"}


def bound_locals(body):
    """names bound inside a function body, in source order (let / for / closure parameters / if-let / while-let / match arms)"""
    out = []
    def add_pat(p):
        p = re.sub(r":[^,|)]*", "", p)            # type ascriptions
        for nm in re.findall(r"[A-Za-z_]\w*", p):
            if nm in _KW or nm[0].isupper():
                continue
            out.append(nm)
    for m in re.finditer(r"\blet\s+([^=;]+?)\s*(?::[^=;]+)?=[^=]|\bfor\s+(.+?)\s+in\b|\|([^|\n]{0,80})\|\s*[{(\w!&*]|=>\s*\{?|\b(?:Some|Ok|Err)\(\s*([a-z_]\w*)\s*\)\s*=>", body):
        if m.group(1) is not None:
            add_pat(m.group(1))
        elif m.group(2) is not None:
            add_pat(m.group(2))
        elif m.group(3) is not None:
            add_pat(m.group(3))
        elif m.group(4) is not None:
            add_pat(m.group(4))
    return out


_DERIVED = ("", "idx_", "nxt_", "nxt_idx_", "ents_", "keys_", "sorted_", "pairs_", "snap_")


def alpha_map(base, now):
    """a renaming old -> new when `now` is `base` with some names consistently replaced by fresh ones, else {}"""
    if not base or base == now or len(base) != len(now):
        return {}
    sb, sn = set(base), set(now)
    mp = {}
    for b, n in zip(base, now):
        if b == n:
            continue
        if b in sn or n in sb:
            return {}                      # a reordering or a reuse, not a rename
        if mp.setdefault(b, n) != n:
            return {}
    if len(set(mp.values())) != len(mp):
        return {}
    return mp


def alpha_apply(text, mp):
    for old, new in mp.items():
        for pre in _DERIVED:
            text = re.sub(r"\b" + re.escape(pre + old) + r"\b", pre + new, text)
    return text


class Unit:
    def __init__(self, name, repo=None):
        self.name = name
        self.repo = repo or REPO
        self.dir = os.path.join(VERIF, "units", name)
        with open(os.path.join(self.dir, "contracts.toml"), "rb") as f:
            self.cfg = tomllib.load(f)
        self.preamble = open(os.path.join(self.dir, "preamble.rs")).read()
        # `include`: other units whose preamble, constants, mirror checks, rules and contracted functions
        # are emitted in front of this unit's (their obligations are re-discharged here, not assumed)
        def closure(names, seen):
            out = []
            for inc in names:
                if inc in seen:
                    continue
                seen.add(inc)
                with open(os.path.join(VERIF, "units", inc, "contracts.toml"), "rb") as f:
                    ic = tomllib.load(f)
                out += closure(ic.get("include", []), seen) + [(inc, ic)]
            return out
        for inc, ic in reversed(closure(self.cfg.get("include", []), {name})):
            d = os.path.join(VERIF, "units", inc)
            self.preamble = open(os.path.join(d, "preamble.rs")).read() + "\n" + self.preamble
            for key in ("struct_check", "const", "rule", "fn"):
                self.cfg[key] = ic.get(key, []) + self.cfg.get(key, [])
        # names of the locals each extracted function binds, in source order, as they were when the contracts were last
        # verified (baseline): lets a pure RENAME of a local be followed by the contract text (see `alpha_map`)
        self.base_locals = {}
        try:
            import json as _json
            with open(os.path.join(self.dir, "baseline.json")) as f:
                self.base_locals = _json.load(f).get("locals", {})
        except Exception:
            self.base_locals = {}
        self.locals = {}
        self.log = []          # rule instances
        self.items = []        # dicts: id, file, lines, sha, text (rewritten), owner
        self.context = {}      # struct / const hashes
        self._src = {}

    def src(self, rel):
        if rel not in self._src:
            p = os.path.join(self.repo, rel)
            if not os.path.exists(p):
                raise LostAnchor("source file %s missing" % rel)
            self._src[rel] = open(p).read()
        return self._src[rel]

    # ------------------------------------------------------------------ rules
    def unit_rules(self):
        table = dict(rules.RULES)
        for r in self.cfg.get("rule", []):
            table[r["name"]] = rules.generic([(p[0], p[1]) for p in r.get("pairs", [])], r["name"], r.get("calls", []))
        return table

    def apply_rules(self, text, names, cfg, fid):
        table = self.unit_rules()
        for nm in names:
            if nm not in table:
                raise LostAnchor("unknown rule %s" % nm)
            text, inst = table[nm](text, cfg)
            for i in inst:
                self.log.append("%s: %s" % (fid, i))
        return text

    # ------------------------------------------------------------------ checks on mirrors
    def check_structs(self):
        for sc in self.cfg.get("struct_check", []):
            got = rlex.find_struct_fields(self.src(sc["file"]), sc["name"])
            if got is None:
                raise LostAnchor("struct %s not found in %s" % (sc["name"], sc["file"]))
            want = [tuple(x) for x in sc["fields"]]
            self.context["struct " + sc["name"]] = sha(repr(got))
            if [tuple(x) for x in got] != want:
                raise LostAnchor("struct %s fields changed: %r (mirror declares %r)" % (sc["name"], got, want))

    def consts(self):
        """extract `pub const NAME: &str = <lit>;` items mechanically"""
        out = []
        for cc in self.cfg.get("const", []):
            s = self.src(cc["file"])
            m = re.search(r"pub\s+const\s+" + re.escape(cc["name"]) + r"\s*:\s*&\s*str\s*=\s*(r#\"(.*?)\"#|\"((?:[^\"\\]|\\.)*)\")\s*;", s, re.S)
            if not m:
                raise LostAnchor("const %s not found in %s" % (cc["name"], cc["file"]))
            val = m.group(2) if m.group(2) is not None else m.group(3)
            lit = '"' + val.replace("\\", "\\\\").replace('"', '\\"') + '"' if m.group(2) is not None else '"' + val + '"'
            self.context["const " + cc["name"]] = sha(lit)
            out.append((cc["name"], lit))
        return out

    # ------------------------------------------------------------------ functions
    def locate(self, f):
        fns = rlex.find_fns(self.src(f["file"]))
        owner = f.get("owner") or None
        trait = f.get("trait") or None
        hits = [x for x in fns if x.name == f["name"] and x.owner == owner and x.trait == trait]
        if len(hits) != 1:
            raise LostAnchor("function %s::%s (%s) in %s: %d matches" % (owner, f["name"], trait, f["file"], len(hits)))
        return hits[0]

    def build_fn(self, f, canary=False):
        fid = f.get("id") or ((f.get("owner") + "::") if f.get("owner") else "") + f["name"]
        item = self.locate(f)
        raw = rlex.strip_comments(item.text)
        src_hash = sha(norm(raw))
        fcfg = f.get("cfg", {})
        names = f.get("rules", [])
        sig_end = item.body_open - item.start
        sig, body = raw[:sig_end], raw[sig_end:]
        now = bound_locals(body)
        self.locals[fid] = now
        mp = alpha_map(self.base_locals.get(fid), now)
        if mp:
            import copy as _copy
            texts = [f.get("spec", "")] + [lp.get("spec", "") for lp in f.get("loop", [])] + [g.get("code", "") + " " + g.get("at", "") for g in f.get("ghost", [])]
            words = set(re.findall(r"[A-Za-z_]\w*", " ".join(texts)))
            if any(new in words or any((pre + new) in words for pre in _DERIVED) for new in mp.values()):
                mp = {}                    # the new name already means something in the contract text: do not touch it
        if mp:
            f = _copy.deepcopy(f)
            f["spec"] = alpha_apply(f.get("spec", ""), mp)
            for lp in f.get("loop", []):
                lp["spec"] = alpha_apply(lp.get("spec", ""), mp)
            for g in f.get("ghost", []):
                g["code"] = alpha_apply(g.get("code", ""), mp)
                g["at"] = alpha_apply(g.get("at", ""), mp)
            def _ren(x):
                if isinstance(x, str):
                    return alpha_apply(x, mp)
                if isinstance(x, list):
                    return [_ren(y) for y in x]
                if isinstance(x, dict):
                    return {_ren(k): _ren(v) for k, v in x.items()}
                return x
            f["cfg"] = _ren(f.get("cfg", {}))
            if not canary:
                self.log.append("%s: ALPHA: local(s) renamed in the source, contract text follows: %s" % (fid, ", ".join("`%s` -> `%s`" % kv for kv in sorted(mp.items()))))
        # --- signature
        sig = " ".join(sig.split())
        for pat, rep in f.get("sigmap", []) + self.cfg.get("sigmap", []):
            sig = re.sub(pat, rep, sig)
        ret = f.get("ret", "ret")
        m = re.search(r"->\s*(.+?)\s*(where\b.*)?$", sig)
        if m and not m.group(1).startswith("("):
            sig = sig[:m.start()] + "-> (%s: %s)" % (ret, m.group(1)) + ((" " + m.group(2)) if m.group(2) else "")
        emit_name = f.get("emit_name", f["name"])
        if canary:
            emit_name = "canary_" + emit_name
        sig = re.sub(r"^fn\s+" + re.escape(f["name"]) + r"\b", "fn " + emit_name, sig)
        if f.get("pub", True):
            sig = "pub " + sig
        # --- body
        body = self.apply_rules(body, names, fcfg, fid) if not canary else self._quiet_rules(body, names, fcfg)
        body = self.splice(body, f, fid)
        spec = f.get("spec", "").rstrip()
        if canary:
            spec = self.canary_spec(spec)
        text = sig + "\n" + (spec + "\n" if spec.strip() else "") + body
        rec = {"id": fid, "emit": emit_name, "file": f["file"], "line1": item.line1, "line2": item.line2,
               "sha": src_hash, "text": text, "owner": f.get("owner") or "", "attrs": f.get("attrs", "")}
        return rec

    def _quiet_rules(self, body, names, fcfg):
        table = self.unit_rules()
        for nm in names:
            body, _ = table[nm](body, fcfg)
        return body

    @staticmethod
    def canary_spec(spec):
        """append `false` to the ensures clause (or add one): the twin MUST fail to verify."""
        if re.search(r"\bensures\b", spec):
            # put `false,` right after the first `ensures`
            return re.sub(r"\bensures\b", "ensures false,", spec, count=1)
        # insert before a trailing decreases if any
        m = re.search(r"\n\s*decreases\b", spec)
        if m:
            return spec[:m.start()] + "\n    ensures false," + spec[m.start():]
        return spec + "\n    ensures false,"

    def splice(self, body, f, fid):
        """insert loop clauses and ghost blocks at structural anchors."""
        ins = []  # (offset, text)
        loops = rlex.find_loops(body)
        for lp in f.get("loop", []):
            n = lp["n"]
            if n < 1 or n > len(loops):
                raise LostAnchor("%s: loop #%d not found (function has %d loops)" % (fid, n, len(loops)))
            L = loops[n - 1]
            mk = re.search(r"/\*@L:(\w+):(.*?)\*/", body[L["kw_start"]:L["open"]])
            spec = lp["spec"].rstrip()
            if mk:
                # index loop produced by a rule (while form): the loop clauses talk about the cursor `nxt_<idx>`
                idx, ln = mk.group(1), mk.group(2)
                spec = re.sub(r"\b" + re.escape(idx) + r"\b", "nxt_" + idx, spec)
                if re.search(r"(?m)^\s*invariant\b", spec):
                    spec = re.sub(r"(?m)^(\s*)invariant\b", r"\1invariant nxt_%s <= %s," % (idx, ln), spec, count=1)
                else:
                    spec = "    invariant nxt_%s <= %s,\n" % (idx, ln) + spec
                if not re.search(r"\bdecreases\b", spec):
                    spec = spec.rstrip() + "\n    decreases %s - nxt_%s," % (ln, idx)
            elif "kw" in lp and lp["kw"] != L["kw"]:
                raise LostAnchor("%s: loop #%d is `%s`, contract expects `%s`" % (fid, n, L["kw"], lp["kw"]))
            ins.append((L["open"], "\n" + spec + "\n"))
        for g in f.get("ghost", []):
            at = g["at"]
            code = "\n" + g["code"].rstrip() + "\n"
            if at == "entry":
                ins.append((1, code))
            elif at.startswith("loop:"):
                _, n, where = at.split(":")
                n = int(n)
                if n < 1 or n > len(loops):
                    raise LostAnchor("%s: ghost anchor loop #%d not found" % (fid, n))
                L = loops[n - 1]
                if where == "entry":
                    bm = body.find("/*@B*/", L["open"], L["close"])
                    ins.append(((bm + 6) if bm >= 0 else (L["open"] + 1), code))
                elif where == "end":
                    ins.append((L["close"], code))
                elif where == "before":
                    ins.append((L["kw_start"], code))
                elif where == "after":
                    ins.append((L["close"] + 1, code))
                else:
                    raise LostAnchor("bad ghost anchor " + at)
            elif at.startswith("after_call:") or at.startswith("before_call:"):
                kind, callee, k = at.split(":")
                k = int(k)
                occ = [m for m in re.finditer(re.escape(callee) + r"\s*\(", body)]
                if len(occ) < k:
                    raise LostAnchor("%s: call #%d of %s not found" % (fid, k, callee))
                m = occ[k - 1]
                if kind == "before_call":
                    # start of the statement: previous `;` `{` or `}`
                    j = m.start()
                    depth = 0
                    while j > 0:
                        c = body[j - 1]
                        if c in ")]":
                            depth += 1
                        elif c in "([":
                            depth -= 1
                        elif c in ";{}" and depth <= 0:
                            break
                        j -= 1
                    ins.append((j, code))
                else:
                    end = rules._balanced(body, m.end() - 1)
                    j = end
                    depth = 0
                    while j < len(body):
                        c = body[j]
                        if c in "([{":
                            depth += 1
                        elif c in ")]}":
                            if depth == 0:
                                break
                            depth -= 1
                        elif c == ";" and depth == 0:
                            j += 1
                            break
                        j += 1
                    ins.append((j, code))
            else:
                raise LostAnchor("bad ghost anchor " + at)
        for off, txt in sorted(ins, key=lambda x: -x[0]):
            body = body[:off] + txt + body[off:]
        return body

    # ------------------------------------------------------------------ emit
    def generate(self, canary=False):
        self.log = []
        self.items = []
        self.check_structs()
        consts = self.consts()
        recs = [self.build_fn(f) for f in self.cfg.get("fn", [])]
        twins = []
        if canary:
            twins = [self.build_fn(f, canary=True) for f in self.cfg.get("fn", []) if f.get("canary", True)]
        self.items = recs
        lemma_twins = self.lemma_twins() if canary else ""
        out = []
        out.append("// GENERATED by /verif/vf/gen.py — unit `%s`%s. Do not edit; re-generated on every run from %s" % (self.name, " (canary twins)" if canary else "", self.repo))
        out.append(self.cfg.get("uses", "use vstd::prelude::*;"))
        out.append("verus! {")
        for nm, lit in consts:
            out.append("pub const %s: &'static str = %s;" % (nm, lit))
        out.append(self.preamble)
        groups = {}
        order = []
        for r in recs + twins:
            if r["owner"] not in groups:
                groups[r["owner"]] = []
                order.append(r["owner"])
            groups[r["owner"]].append(r)
        for ow in order:
            if ow:
                out.append((self.cfg.get("impl_header", {}).get(ow) or ("impl " + ow)) + " {")
                if self.cfg.get("impl_extra", {}).get(ow):
                    out.append(self.cfg["impl_extra"][ow])
            for r in groups[ow]:
                out.append("// SOURCE %s:%d-%d sha256=%s" % (r["file"], r["line1"], r["line2"], r["sha"]))
                if r["attrs"]:
                    out.append(r["attrs"])
                out.append(r["text"])
            if ow:
                out.append("}")
        out.append(self.cfg.get("postamble", ""))
        if canary:
            out.append(lemma_twins)
        out.append("} // verus!")
        out.append("fn main() {}")
        return "\n".join(out) + "\n"

    def lemma_twins(self):
        """vacuity guard for lemmas: every `proof fn` of the preamble gets a twin with `ensures false`
        that must FAIL (a twin that verifies = contradictory requires)."""
        out = []
        pre = rlex.strip_comments(self.preamble)
        for f in rlex.find_fns(pre):
            head = pre[max(0, f.start - 40):f.start]
            if not re.search(r"\bproof\s*$", head) or f.owner:
                continue
            if re.search(r"external_body", pre[max(0, f.start - 120):f.start]):
                continue
            rest = pre[f.body_close + 1:f.body_close + 200].lstrip()
            if rest.startswith(",") or rest.startswith("{"):
                continue  # a `match {..}` inside the spec clause was taken for the body: no twin for this lemma
            sig = pre[f.start:f.body_open]
            sig = re.sub(r"^fn\s+" + re.escape(f.name) + r"\b", "fn canary_" + f.name, sig)
            if not re.search(r"\brequires\b", sig):
                continue  # nothing that could be contradictory
            sig = self.canary_spec(sig)
            out.append("pub proof " + sig + pre[f.body_open:f.body_close + 1])
        return "\n".join(out)

    def hashes(self):
        h = {r["id"]: r["sha"] for r in self.items}
        h.update(self.context)
        return h
