"""Small Rust-aware lexer and item finder (DESIGN.md §1.2).

Only what the extractor needs: tokens with byte spans (comments, strings, raw strings, chars,
lifetimes, idents, numbers, punctuation), brace matching, `impl` / `fn` / `struct` item location,
loop-header location inside a function body.  No regex over raw text is used for item boundaries.
"""
import re

IDENT_START = set("abcdefghijklmnopqrstuvwxyzABCDEFGHIJKLMNOPQRSTUVWXYZ_")
IDENT_CONT = IDENT_START | set("0123456789")


class Tok:
    __slots__ = ("kind", "text", "start", "end")

    def __init__(self, kind, text, start, end):
        self.kind, self.text, self.start, self.end = kind, text, start, end

    def __repr__(self):
        return "Tok(%s,%r)" % (self.kind, self.text)


class LexError(Exception):
    pass


def lex(src):
    """Return list of tokens. kinds: comment, str, char, lifetime, ident, num, punct."""
    toks = []
    i, n = 0, len(src)
    while i < n:
        c = src[i]
        if c in " \t\r\n":
            i += 1
            continue
        if src.startswith("//", i):
            j = src.find("\n", i)
            j = n if j < 0 else j
            toks.append(Tok("comment", src[i:j], i, j))
            i = j
            continue
        if src.startswith("/*", i):
            depth, j = 1, i + 2
            while j < n and depth > 0:
                if src.startswith("/*", j):
                    depth += 1
                    j += 2
                elif src.startswith("*/", j):
                    depth -= 1
                    j += 2
                else:
                    j += 1
            toks.append(Tok("comment", src[i:j], i, j))
            i = j
            continue
        # raw strings r"..." r#"..."# br#"..."#
        m = re.match(r'b?r(#*)"', src[i:i + 40])
        if m and (i == 0 or src[i - 1] not in IDENT_CONT):
            hashes = m.group(1)
            close = '"' + hashes
            j = src.find(close, i + m.end())
            if j < 0:
                raise LexError("unterminated raw string at %d" % i)
            j += len(close)
            toks.append(Tok("str", src[i:j], i, j))
            i = j
            continue
        if c == '"' or (c == "b" and i + 1 < n and src[i + 1] == '"'):
            j = i + (2 if c == "b" else 1)
            while j < n and src[j] != '"':
                j += 2 if src[j] == "\\" else 1
            j += 1
            toks.append(Tok("str", src[i:j], i, j))
            i = j
            continue
        if c == "'" or (c == "b" and i + 1 < n and src[i + 1] == "'"):
            k = i + (1 if c == "b" else 0)
            # char literal or lifetime
            if k + 1 < n and src[k + 1] == "\\":
                j = k + 2
                while j < n and src[j] != "'":
                    j += 1
                j += 1
                toks.append(Tok("char", src[i:j], i, j))
                i = j
                continue
            if k + 2 < n and src[k + 2] == "'":
                j = k + 3
                toks.append(Tok("char", src[i:j], i, j))
                i = j
                continue
            # lifetime
            j = k + 1
            while j < n and src[j] in IDENT_CONT:
                j += 1
            toks.append(Tok("lifetime", src[i:j], i, j))
            i = j
            continue
        if c in IDENT_START:
            j = i + 1
            while j < n and src[j] in IDENT_CONT:
                j += 1
            toks.append(Tok("ident", src[i:j], i, j))
            i = j
            continue
        if c.isdigit():
            j = i + 1
            while j < n and (src[j] in IDENT_CONT or (src[j] == "." and j + 1 < n and src[j + 1].isdigit())):
                j += 1
            toks.append(Tok("num", src[i:j], i, j))
            i = j
            continue
        toks.append(Tok("punct", c, i, i + 1))
        i += 1
    return toks


def strip_comments(src):
    """Replace comments by spaces (newlines kept) so that later textual rules never see them."""
    out = list(src)
    for t in lex(src):
        if t.kind == "comment":
            for k in range(t.start, t.end):
                if out[k] != "\n":
                    out[k] = " "
    return "".join(out)


def code_toks(src):
    return [t for t in lex(src) if t.kind != "comment"]


OPEN = {"{": "}", "(": ")", "[": "]"}
CLOSE = {"}", ")", "]"}


def match_close(toks, i):
    """toks[i] is an opening bracket; return index of its matching close."""
    want = []
    j = i
    while j < len(toks):
        t = toks[j]
        if t.kind == "punct":
            if t.text in OPEN:
                want.append(OPEN[t.text])
            elif t.text in CLOSE:
                if not want or want[-1] != t.text:
                    raise LexError("unbalanced %r at %d" % (t.text, t.start))
                want.pop()
                if not want:
                    return j
        j += 1
    raise LexError("no close for bracket at %d" % toks[i].start)


class FnItem:
    def __init__(self, name, owner, trait, src, start, sig_start, body_open, body_close, line1, line2):
        self.name, self.owner, self.trait = name, owner, trait
        self.src = src
        self.start = start  # start of `fn` keyword (attributes / visibility dropped)
        self.sig_start = sig_start
        self.body_open, self.body_close = body_open, body_close  # byte offsets of { and }
        self.line1, self.line2 = line1, line2

    @property
    def signature(self):
        return self.src[self.start:self.body_open].strip()

    @property
    def body(self):
        return self.src[self.body_open:self.body_close + 1]

    @property
    def text(self):
        return self.src[self.start:self.body_close + 1]


def _impl_header(toks, i):
    """toks[i] is `impl`; return (owner, trait, index_of_open_brace)."""
    j = i + 1
    # skip generics <...>
    depth = 0
    if toks[j].text == "<":
        depth = 1
        j += 1
        while depth > 0:
            if toks[j].text == "<":
                depth += 1
            elif toks[j].text == ">" and toks[j - 1].text != "-":
                depth -= 1
            j += 1
    hdr = []
    while not (toks[j].kind == "punct" and toks[j].text == "{"):
        hdr.append(toks[j])
        j += 1
    words = [t.text for t in hdr]
    # cut where clause
    if "where" in words:
        words = words[:words.index("where")]
    trait = None
    if "for" in words:
        k = words.index("for")
        trait = _first_path_ident(words[:k])
        owner = _first_path_ident(words[k + 1:])
    else:
        owner = _first_path_ident(words)
    return owner, trait, j


def _first_path_ident(words):
    # "fmt :: Display" -> Display ; "Flate2Adapter < A >" -> Flate2Adapter
    name = None
    for w in words:
        if w == "<":
            break
        if w and (w[0] in IDENT_START):
            name = w
    return name


def find_fns(src):
    """All fn items with their owner (impl type or None) — nested fns inside fn bodies are skipped.
    `mod tests` blocks are skipped."""
    toks = code_toks(src)
    res = []

    def walk(lo, hi, owner, trait):
        i = lo
        while i < hi:
            t = toks[i]
            if t.kind == "ident" and t.text == "mod" and i + 2 < hi and toks[i + 2].text == "{":
                j = match_close(toks, i + 2)
                if toks[i + 1].text != "tests":
                    walk(i + 3, j, owner, trait)
                i = j + 1
                continue
            if t.kind == "ident" and t.text == "impl" and (i == 0 or toks[i - 1].text not in ("->", ":", "(", ",", "<", "&")):
                try:
                    ow, tr, ob = _impl_header(toks, i)
                except IndexError:
                    i += 1
                    continue
                cb = match_close(toks, ob)
                walk(ob + 1, cb, ow, tr)
                i = cb + 1
                continue
            if t.kind == "ident" and t.text == "trait" and i + 1 < hi and toks[i + 1].kind == "ident":
                # skip trait bodies (declarations only)
                j = i
                while toks[j].text != "{" and toks[j].text != ";":
                    j += 1
                i = match_close(toks, j) + 1 if toks[j].text == "{" else j + 1
                continue
            if t.kind == "ident" and t.text == "fn" and i + 1 < hi and toks[i + 1].kind == "ident":
                name = toks[i + 1].text
                # find body open: first `{` at bracket depth 0 (or `;` = declaration)
                j = i + 2
                depth = 0
                while j < hi:
                    x = toks[j]
                    if x.kind == "punct":
                        if x.text in "([":
                            depth += 1
                        elif x.text in ")]":
                            depth -= 1
                        elif x.text == "{" and depth == 0:
                            break
                        elif x.text == ";" and depth == 0:
                            break
                    j += 1
                if j >= hi or toks[j].text == ";":
                    i = j + 1
                    continue
                cb = match_close(toks, j)
                line1 = src.count("\n", 0, t.start) + 1
                line2 = src.count("\n", 0, toks[cb].start) + 1
                res.append(FnItem(name, owner, trait, src, t.start, t.start, toks[j].start, toks[cb].start, line1, line2))
                i = cb + 1
                continue
            if t.kind == "punct" and t.text == "{":
                # other braces at item level (struct bodies, macro bodies): skip
                i = match_close(toks, i) + 1
                continue
            i += 1

    walk(0, len(toks), None, None)
    return res


def find_struct_fields(src, name):
    """Return list of (field, type_text) for `struct name { ... }`, or tuple-struct types, or None."""
    toks = code_toks(src)
    for i, t in enumerate(toks):
        if t.kind == "ident" and t.text == "struct" and i + 1 < len(toks) and toks[i + 1].text == name:
            j = i + 2
            # generics
            while toks[j].text not in ("{", "(", ";"):
                j += 1
            if toks[j].text == ";":
                return []
            cb = match_close(toks, j)
            inner = toks[j + 1:cb]
            fields, cur, depth = [], [], 0
            for x in inner:
                if x.kind == "punct" and x.text in "([{<":
                    depth += 1
                elif x.kind == "punct" and x.text in ")]}>" and not (x.text == ">" and cur and cur[-1].text == "-"):
                    depth -= 1
                if x.kind == "punct" and x.text == "," and depth == 0:
                    if cur:
                        fields.append(cur)
                    cur = []
                else:
                    cur.append(x)
            if cur:
                fields.append(cur)
            out = []
            for f in fields:
                words = [w.text for w in f]
                # drop attributes `# [ ... ]` and visibility
                while words and words[0] == "#":
                    k = words.index("]")
                    words = words[k + 1:]
                if words and words[0] == "pub":
                    words = words[1:]
                    if words and words[0] == "(":
                        words = words[words.index(")") + 1:]
                if toks[j].text == "{":
                    nm = words[0]
                    ty = "".join(words[2:])
                else:
                    nm = str(len(out))
                    ty = "".join(words)
                out.append((nm, ty))
            return out
    return None


LOOP_KW = ("for", "while", "loop")


def find_loops(body):
    """Loops of a function body in source order.
    Returns list of dicts {kw, kw_start, open (offset of the `{` of the loop body), close}."""
    toks = code_toks(body)
    loops = []
    i = 0
    while i < len(toks):
        t = toks[i]
        if t.kind == "ident" and t.text in LOOP_KW:
            prev = toks[i - 1] if i > 0 else None
            # `for` in `impl X for Y` / HRTB does not occur inside fn bodies we extract; `.for_each` is ident for_each
            if prev is not None and prev.kind == "punct" and prev.text == ".":
                i += 1
                continue
            j = i + 1
            depth = 0
            while j < len(toks):
                x = toks[j]
                if x.kind == "punct":
                    if x.text in "([":
                        depth += 1
                    elif x.text in ")]":
                        depth -= 1
                    elif x.text == "{" and depth == 0:
                        break
                j += 1
            if j >= len(toks):
                break
            cb = match_close(toks, j)
            loops.append({"kw": t.text, "kw_start": t.start, "open": toks[j].start, "close": toks[cb].start})
        i += 1
    return loops
