"""setup_cmd: build the native driver once (offline) so that the first check does not pay for it.
Verus units need no build step.  Failure to pre-build is not fatal: checks rebuild on demand."""
import sys
from . import native
try:
    print("native driver:", native.build())
except native.BuildError as e:
    print("native driver pre-build failed (checks will retry / report undecided):\n" + str(e)[-2000:])
sys.exit(0)
