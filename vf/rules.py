"""Rewrite rules R1..R18 (DESIGN.md §1.2).  Every rule is a function text -> (text, instances)
where instances is a list of short strings logged into the evidence file.  Rules are *general*
(they fire on every occurrence of a syntactic shape), never keyed on a line of a particular
function: a changed function is rewritten by the same rules and then handed to Verus as it is.
Rules operate on comment-free text (rlex.strip_comments)."""
import re

ID = r"[A-Za-z_][A-Za-z0-9_]*"
PATH = r"(?:&\s*)?(?:\*\s*)?" + ID + r"(?:\s*\.\s*" + ID + r")*"


def _sub(pattern, repl, text, tag, flags=0):
    inst = []

    def f(m):
        out = repl(m) if callable(repl) else m.expand(repl)
        inst.append("%s: `%s` -> `%s`" % (tag, " ".join(m.group(0).split())[:80], " ".join(out.split())[:80]))
        return out

    return re.sub(pattern, f, text, flags=flags), inst


def _balanced(text, i):
    """text[i] is an opening bracket; return index just past its matching close (strings skipped)."""
    pairs = {"(": ")", "[": "]", "{": "}"}
    stack = []
    j = i
    n = len(text)
    while j < n:
        c = text[j]
        if c == '"':
            j += 1
            while j < n and text[j] != '"':
                j += 2 if text[j] == "\\" else 1
        elif c == "'" and j + 2 < n and (text[j + 2] == "'" or text[j + 1] == "\\"):
            j = text.index("'", j + 2)
        elif c in pairs:
            stack.append(pairs[c])
        elif c in ")]}":
            if not stack or stack[-1] != c:
                raise ValueError("unbalanced at %d" % j)
            stack.pop()
            if not stack:
                return j + 1
        j += 1
    raise ValueError("no close")


def split_args(s):
    """split a comma separated argument list at depth 0."""
    args, depth, cur = [], 0, ""
    i = 0
    while i < len(s):
        c = s[i]
        if c == '"':
            j = i + 1
            while s[j] != '"':
                j += 2 if s[j] == "\\" else 1
            cur += s[i:j + 1]
            i = j + 1
            continue
        if c in "([{":
            depth += 1
        elif c in ")]}":
            depth -= 1
        elif c == "<" and False:
            pass
        if c == "," and depth == 0:
            args.append(cur.strip())
            cur = ""
        else:
            cur += c
        i += 1
    if cur.strip():
        args.append(cur.strip())
    return args


def rewrite_calls(text, pattern, builder, tag):
    """Generic helper: find regex `pattern` whose match ends right before an opening `(`;
    parse the balanced argument list and replace the whole call by builder(match, args, closure_text)."""
    inst = []
    out = ""
    pos = 0
    rx = re.compile(pattern)
    while True:
        m = rx.search(text, pos)
        if not m:
            out += text[pos:]
            break
        op = m.end()
        while op < len(text) and text[op] in " \n\t":
            op += 1
        if op >= len(text) or text[op] != "(":
            out += text[pos:m.end()]
            pos = m.end()
            continue
        try:
            end = _balanced(text, op)
        except ValueError:
            out += text[pos:m.end()]
            pos = m.end()
            continue
        args = split_args(text[op + 1:end - 1])
        rep = builder(m, args)
        if rep is None:
            out += text[pos:end]
        else:
            out += text[pos:m.start()] + rep
            inst.append("%s: `%s` -> `%s`" % (tag, " ".join(text[m.start():end].split())[:90], " ".join(rep.split())[:90]))
        pos = end
    return out, inst


def idx_loop(idx, length, elem_decl):
    """header of an index loop in WHILE form: the cursor `nxt_<idx>` is advanced before the body runs, so `continue`
    keeps its meaning (installed Verus: no `continue` in for-loops); inside the body `<idx>` is the current index.
    The markers tell the splicer the cursor / bound (it adds `nxt <= len` and `decreases`) and where the body starts."""
    return "let mut nxt_%s: usize = 0; while nxt_%s < %s /*@L:%s:%s*/ { let %s = nxt_%s; nxt_%s += 1; %s /*@B*/" % (
        idx, idx, length, idx, length, idx, idx, idx, elem_decl)


# ---------------------------------------------------------------------------------------------
# R1  for (i, x) in E.iter().enumerate() {   ->  for i in 0..E.len() { let x = &E[i];
def R1(text, cfg=None):
    pat = r"for\s*\(\s*(" + ID + r")\s*,\s*(" + ID + r")\s*\)\s*in\s*(" + PATH + r")\s*\.\s*iter\s*\(\s*\)\s*\.\s*enumerate\s*\(\s*\)\s*\{"
    return _sub(pat, lambda m: idx_loop(m.group(1), m.group(3) + ".len()", "let %s = vx_at(%s, %s);" % (m.group(2), m.group(3), m.group(1))), text, "R1")


# R2  for x in E {  (E a slice / &Vec named in cfg['slices'])  -> index loop
def R2(text, cfg=None):
    """cfg['slices']: names of slices / vectors iterated by reference; an entry `name:expr` says how the
    collection is passed to vx_at (e.g. `pack_list:pack_list.as_slice()` for a local Vec).
    cfg['slices_while']: same, but rewritten to a `while` loop with the index incremented before the body,
    so that `continue` keeps its meaning (installed Verus: no `continue` in for-loops)."""
    inst_all = []
    for ent in (cfg or {}).get("slices", []):
        e, _, how = ent.partition(":")
        how = how or e
        pat = r"for\s+(" + ID + r")\s+in\s+&?\s*" + re.escape(e) + r"(?:\s*\.\s*iter\s*\(\s*\))?\s*\{"
        text, inst = _sub(pat, lambda m, e=e, how=how: idx_loop("idx_" + m.group(1), e + ".len()", "let %s = vx_at(%s, idx_%s);" % (m.group(1), how, m.group(1))), text, "R2")
        inst_all += inst
    for ent in (cfg or {}).get("slices_while", []):
        e, _, how = ent.partition(":")
        how = how or e
        pat = r"for\s+(" + ID + r")\s+in\s+&?\s*" + re.escape(e) + r"(?:\s*\.\s*iter\s*\(\s*\))?\s*\{"
        text, inst = _sub(pat, lambda m, e=e, how=how: idx_loop("idx_" + m.group(1), e + ".len()", "let %s = vx_at(%s, idx_%s);" % (m.group(1), how, m.group(1))), text, "R2")
        inst_all += inst
    return text, inst_all


# R3  E.iter().for_each(|p| B);  ->  for p in E.iter() { B }      (single-expression closure body or block)
def R3(text, cfg=None):
    inst = []
    rx = re.compile(r"(" + PATH + r")\s*\.\s*iter\s*\(\s*\)\s*\.\s*for_each\s*\(")
    pos = 0
    out = ""
    while True:
        m = rx.search(text, pos)
        if not m:
            out += text[pos:]
            break
        op = m.end() - 1
        end = _balanced(text, op)
        inner = text[op + 1:end - 1].strip()
        cm = re.match(r"\|\s*([^|]*?)\s*\|\s*(.*)$", inner, re.S)
        if not cm:
            out += text[pos:end]
            pos = end
            continue
        var, body = cm.group(1), cm.group(2).strip()
        if body.startswith("{") and _balanced(body, 0) == len(body):
            body = body[1:-1]
        else:
            body = body + ";"
        # swallow trailing `;`
        e2 = end
        while e2 < len(text) and text[e2] in " \n\t":
            e2 += 1
        if e2 < len(text) and text[e2] == ";":
            end = e2 + 1
        rep = "for %s in %s.iter() { %s }" % (var, m.group(1), body)
        inst.append("R3: `%s` -> loop" % " ".join(text[m.start():end].split())[:80])
        out += text[pos:m.start()] + rep
        pos = end
    return out, inst


# R4  E.iter().position(|e| *e == *t)  ->  vx::position(E, t)
def R4(text, cfg=None):
    pat = r"(" + PATH + r")\s*\.\s*iter\s*\(\s*\)\s*\.\s*position\s*\(\s*\|\s*(" + ID + r")\s*\|\s*\*\s*\2\s*==\s*\*\s*(" + ID + r")\s*\)"
    return _sub(pat, lambda m: "vx_position(%s, %s)" % (_as_ref(m.group(1)), m.group(3)), text, "R4")


def _as_ref(e):
    e = e.strip()
    return e if e.startswith("&") else e  # callers pass references already (order_n: &mut Vec) — deref coercion


# R5  Vec::insert / drain / splice / extend_from_slice / push on named vectors -> vx wrappers
def R5(text, cfg=None):
    vecs = (cfg or {}).get("vecs", [])
    inst_all = []
    for v in vecs:
        for meth, wrap in (("insert", "vx_vec_insert"), ("splice", "vx_vec_splice"), ("drain", "vx_vec_drain"),
                           ("extend_from_slice", "vx_vec_extend"), ):
            text, inst = rewrite_calls(text, r"\b" + re.escape(v) + r"\s*\.\s*" + meth + r"\b",
                                       lambda m, args, v=v, wrap=wrap: "%s(%s%s)" % (wrap, _mutref(v, cfg), "".join(", " + a for a in args)), "R5")
            inst_all += inst
    return text, inst_all


def _mutref(v, cfg):
    # parameters that already are `&mut Vec` are passed as is, locals get `&mut`
    return v if v in (cfg or {}).get("mutref_params", []) else "&mut " + v


# R7  anyhow!(..) / bail!(..) / ok_or_else(|| anyhow!(..))  -> vx error values
def R7(text, cfg=None):
    inst_all = []
    text, inst = rewrite_calls(text, r"\.\s*ok_or_else\b", lambda m, args: ".ok_or(vx_error())" if re.match(r"\|\s*\|\s*anyhow\s*!", args[0] if args else "") else None, "R7")
    inst_all += inst
    text, inst = rewrite_calls(text, r"\banyhow\s*::\s*anyhow\s*!", lambda m, args: "vx_error()", "R7")
    inst_all += inst
    text, inst = rewrite_calls(text, r"\banyhow\s*!", lambda m, args: "vx_error()", "R7")
    inst_all += inst
    text, inst = rewrite_calls(text, r"\bbail\s*!", lambda m, args: "return Err(vx_error())", "R7")
    inst_all += inst
    return text, inst_all


# R15  let x = loop { ... break v; ... };  ->  let mut x; loop { ... x = v; break; ... }
def R15(text, cfg=None):
    inst = []
    rx = re.compile(r"let\s+(" + ID + r")\s*=\s*loop\s*\{")
    m = rx.search(text)
    while m:
        op = m.end() - 1
        end = _balanced(text, op)
        body = text[op:end]
        name = m.group(1)
        ty = (cfg or {}).get("loop_result_types", {}).get(name)
        body2 = re.sub(r"\bbreak\s+([^;,}\n]+?)\s*([;,])", lambda b: "{ %s = %s; break; }%s" % (name, b.group(1).strip(), "," if b.group(2) == "," else ""), body)
        e2 = end
        while e2 < len(text) and text[e2] in " \n\t":
            e2 += 1
        if e2 < len(text) and text[e2] == ";":
            e2 += 1
        init = (cfg or {}).get("loop_result_init", {}).get(name)
        decl = "let mut %s%s%s;" % (name, (": " + ty) if ty else "", (" = " + init) if init else "")
        text = text[:m.start()] + decl + " loop " + body2 + text[e2:]
        inst.append("R15: `let %s = loop {..break v..}` -> assignment form" % name)
        m = rx.search(text, m.start() + len(decl) + 6)
    return text, inst


# R16  O.as_ref().is_none_or(|b| E) -> match
def R16(text, cfg=None):
    def b(m, args):
        cm = re.match(r"\|\s*(" + ID + r")\s*\|\s*(.*)$", args[0], re.S)
        if not cm:
            return None
        return "(match %s.as_ref() { None => true, Some(%s) => %s })" % (m.group(1), cm.group(1), cm.group(2))
    return rewrite_calls(text, r"(" + PATH + r")\s*\.\s*as_ref\s*\(\s*\)\s*\.\s*is_none_or\b", b, "R16")


def generic(pairs, tag, calls=()):
    """build a rule from (regex, replacement) pairs and (call-head regex, template) pairs; in a template
    {args} is the argument list, {0} {1} .. single arguments, {g1} {g2} .. groups of the head regex"""
    def rule(text, cfg=None):
        inst_all = []
        for pat, tmpl in calls:
            def b(m, args, tmpl=tmpl):
                out = tmpl.replace("{args}", ", ".join(args))
                for i, a in enumerate(args):
                    out = out.replace("{%d}" % i, a)
                for gi in range(1, (m.re.groups or 0) + 1):
                    out = out.replace("{g%d}" % gi, m.group(gi) or "")
                return out
            text, inst = rewrite_calls(text, pat, b, tag)
            inst_all += inst
        for pat, rep in pairs:
            text, inst = _sub(pat, rep, text, tag, flags=re.S)
            inst_all += inst
        return text, inst_all
    return rule


# R2b  for x in V {  (V: Vec<&T> named in cfg['byval']) -> index loop copying the element (a reference)
def R2b(text, cfg=None):
    inst_all = []
    for e in (cfg or {}).get("byval", []):
        pat = r"for\s+(" + ID + r")\s+in\s+" + re.escape(e) + r"\s*\{"
        text, inst = _sub(pat, lambda m, e=e: idx_loop("idx_" + m.group(1), e + ".len()", "let %s = %s[idx_%s];" % (m.group(1), e, m.group(1))), text, "R2")
        inst_all += inst
    return text, inst_all


# R18  for x in M.keys() {   (hash map key iteration) -> while loop over an arbitrary duplicate-free
#      enumeration of the key set, index incremented before the body so that `continue` keeps its meaning
def R18(text, cfg=None):
    pat = r"for\s+(" + ID + r")\s+in\s+(" + PATH + r")\s*\.\s*keys\s*\(\s*\)\s*\{"
    return _sub(pat, lambda m: "let keys_%s = vx_keys_snapshot(&%s); " % (m.group(1), m.group(2)) + idx_loop("idx_" + m.group(1), "keys_%s.len()" % m.group(1), "let %s = keys_%s[idx_%s];" % (m.group(1), m.group(1), m.group(1))), text, "R18")


# R20  `if let Some(&v) = E {`  ->  `if let Some(v__r) = E { let v = *v__r;`   (ref patterns unsupported by Verus)
def R20(text, cfg=None):
    pat = r"if\s+let\s+Some\s*\(\s*&\s*(" + ID + r")\s*\)\s*=\s*([^{;]+?)\s*\{"
    return _sub(pat, lambda m: "if let Some(%s__r) = %s { let %s = *%s__r;" % (m.group(1), m.group(2), m.group(1), m.group(1)), text, "R20")


# R18b  for (k, v) in M {  (map iteration; M given in cfg['maps'] with the snapshot call that replaces it)
#       -> index loop over an ARBITRARY duplicate-free enumeration of the entries
def R18b(text, cfg=None):
    inst_all = []
    for expr, snap in (cfg or {}).get("maps", {}).items():
        pat = r"for\s*\(\s*(" + ID + r")\s*,\s*(\([^()]*\)|" + ID + r")\s*\)\s*in\s*" + re.escape(expr).replace(r"\ ", r"\s*") + r"\s*\{"
        text, inst = _sub(pat, lambda m, snap=snap: "let ents_%s = %s; " % (m.group(1), snap) + idx_loop("idx_" + m.group(1), "ents_%s.len()" % m.group(1), "let (%s, %s) = ents_%s[idx_%s];" % (m.group(1), m.group(2), m.group(1), m.group(1))), text, "R18")
        inst_all += inst
    return text, inst_all


RULES = {"R18b": R18b, "R2b": R2b, "R18": R18, "R20": R20, "R1": R1, "R2": R2, "R3": R3, "R4": R4, "R5": R5, "R7": R7, "R15": R15, "R16": R16}


# ---------------------------------------------------------------------------------------------
# R12 (general): iterator chains  SRC.iter()[.filter(|P| C)]*[.map(|P| F)](.collect() | .for_each(|P| B))
# are rewritten to an explicit index loop over a snapshot of SRC; the closure patterns and bodies are copied
# verbatim.  cfg['chains'] = { "<SRC expr>": { snap = "<snapshot call>", ... } }, sinks:
#   let [mut] NAME: TYPE = CHAIN.collect();   ->  let mut NAME: TYPE = <new>; loop { .. <push NAME F> .. }
#   Ok(CHAIN.collect())                        ->  { let mut out = <new>; loop ..; Ok(out) }
#   CHAIN.for_each(|P| B);                     ->  loop { .. B .. }
# new / push come from cfg['chains'][SRC]['new'] / ['push'] (push uses {name} and {x}).
def _parse_chain(text, pos):
    """text[pos:] starts right after `.iter()`; parse `.m(args)` calls. returns (calls, end)"""
    calls = []
    i = pos
    while True:
        m = re.compile(r"\s*\.\s*(" + ID + r")\s*\(").match(text, i)
        if not m or m.group(1) not in ("filter", "map", "for_each", "collect", "filter_map"):
            break
        op = m.end() - 1
        end = _balanced(text, op)
        calls.append((m.group(1), text[op + 1:end - 1].strip()))
        i = end
        if m.group(1) in ("for_each", "collect"):
            break
    return calls, i


def _closure(src):
    m = re.match(r"\|\s*(.*?)\s*\|\s*(.*)$", src, re.S)
    if not m:
        return None
    pat, body = m.group(1), m.group(2).strip()
    return pat, body


def R12chain(text, cfg=None):
    inst = []
    chains = (cfg or {}).get("chains", {})
    for src, c in chains.items():
        rx = re.compile(re.escape(src).replace(r"\ ", r"\s*") + r"\s*\.\s*(?:iter|into_iter|keys|values)\(\)")
        pos = 0
        n = 0
        while True:
            m = rx.search(text, pos)
            if not m:
                break
            calls, end = _parse_chain(text, m.end())
            if not calls or calls[-1][0] not in ("for_each", "collect"):
                pos = m.end()
                continue
            n += 1
            tag = c.get("tag", re.sub(r"\W", "", src)) + (str(n) if n > 1 else "")
            ents = "ents_" + tag
            idx = "idx_" + tag
            body_open = ""
            closes = 0
            ok = True
            for name, arg in calls[:-1]:
                cl = _closure(arg)
                if cl is None or name not in ("filter", "map"):
                    ok = False
                    break
                pat, b = cl
                if name == "filter":
                    body_open += " let %s = %s[%s]; if %s {" % (pat, ents, idx, b)
                    closes += 1
                else:  # map: value of the chain becomes b
                    body_open += " let %s = %s[%s]; let chain_val_%s = %s;" % (pat, ents, idx, tag, b)
            if not ok:
                pos = m.end()
                continue
            has_map = any(nm == "map" for nm, _ in calls[:-1])
            last, larg = calls[-1]
            start = m.start()
            # statement context
            pre = text[:start]
            if last == "for_each":
                cl = _closure(larg)
                if cl is None:
                    pos = m.end()
                    continue
                pat, b = cl
                if b.startswith("{") and _balanced(b, 0) == len(b):
                    b = b[1:-1]
                inner = body_open + " let %s = %s[%s]; %s" % (pat, ents, idx, b) + " }" * closes
                e2 = end
                while e2 < len(text) and text[e2] in " \n\t":
                    e2 += 1
                if e2 < len(text) and text[e2] == ";":
                    e2 += 1
                snap_decl = "" if c.get("shared_snapshot") and n > 1 else "let %s = %s; " % (ents, c["snap"])
                if c.get("shared_snapshot"):
                    ents_name = "ents_" + c.get("tag", re.sub(r"\W", "", src))
                    inner = inner.replace(ents, ents_name)
                    snap_decl = "" if n > 1 else "let %s = %s; " % (ents_name, c["snap"])
                    rep = "%s%s%s }" % (snap_decl, idx_loop(idx, ents_name + ".len()", ""), inner)
                else:
                    rep = "%s%s%s }" % (snap_decl, idx_loop(idx, ents + ".len()", ""), inner)
                text = text[:start] + rep + text[e2:]
                inst.append("R12: chain on `%s` ending in for_each -> explicit loop (closure bodies verbatim)" % src)
                pos = start + len(rep)
                continue
            # collect
            val = ("chain_val_" + tag) if has_map else None
            if val is None:
                pos = m.end()
                continue
            lm = re.search(r"let\s+(?:mut\s+)?(" + ID + r")\s*:\s*([^=;]+?)\s*=\s*$", pre)
            om = re.search(r"Ok\s*\(\s*$", pre)
            if lm:
                name, ty = lm.group(1), lm.group(2)
                e2 = end
                while e2 < len(text) and text[e2] in " \n\t":
                    e2 += 1
                if e2 < len(text) and text[e2] == ";":
                    e2 += 1
                ents_name = ("ents_" + c.get("tag", re.sub(r"\W", "", src))) if c.get("shared_snapshot") else ents
                loop_body = body_open.replace(ents, ents_name) + " " + c["push"].replace("{name}", name).replace("{x}", val) + " }" * closes
                rep = "let mut %s: %s = %s; let %s = %s; %s%s }" % (name, ty, c["new"], ents_name, c["snap"], idx_loop(idx, ents_name + ".len()", ""), loop_body)
                text = text[:lm.start()] + rep + text[e2:]
                inst.append("R12: `let %s = <chain on %s>.collect()` -> explicit loop (closure bodies verbatim)" % (name, src))
                pos = lm.start() + len(rep)
            elif om:
                # Ok( CHAIN.collect() [,] )
                e2 = end
                while e2 < len(text) and text[e2] in " \n\t,":
                    e2 += 1
                if e2 < len(text) and text[e2] == ")":
                    e2 += 1
                name = "out_" + tag
                loop_body = body_open + " " + c["push"].replace("{name}", name).replace("{x}", val) + " }" * closes
                rep = "{ let mut %s = %s; let %s = %s; %s%s } Ok(%s) }" % (name, c["new"], ents, c["snap"], idx_loop(idx, ents + ".len()", ""), loop_body, name)
                text = text[:om.start()] + rep + text[e2:]
                inst.append("R12: `Ok(<chain on %s>.collect())` -> explicit loop (closure bodies verbatim)" % src)
                pos = om.start() + len(rep)
            else:
                pos = m.end()
    return text, inst


RULES["R12chain"] = R12chain
