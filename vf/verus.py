"""Run Verus on a generated unit file and classify the outcome per obligation (DESIGN.md §1.3/§1.4)."""
import json
import os
import re
import shutil
import subprocess
import tempfile
import time

from . import gen, rlex

VERUS = shutil.which("verus") or "/usr/local/bin/verus"
BUILD = os.path.join(gen.VERIF, "build")

GENUINE = ("postcondition not satisfied", "precondition not satisfied", "invariant not satisfied",
           "assertion failed", "possible arithmetic underflow/overflow", "possible division by zero",
           "decreases not satisfied", "could not prove termination", "possible bit shift underflow/overflow",
           "unreachable", "loop invariant", "recommendation not met", "index out of bounds", "assertion failure")


class UnitResult:
    def __init__(self, unit):
        self.unit = unit
        self.status = "ok"       # ok | failed | lost | frontend | tool
        self.detail = ""
        self.functions = {}      # name -> {success, time_us, rlimit, mode}
        self.errors = []         # list of {fn, msg, line, text}
        self.hashes = {}
        self.locals = {}
        self.log = []
        self.path = None
        self.wall = 0.0
        self.cmd = ""
        self.verified = 0
        self.n_errors = 0
        self.assumption_scan = []
        self.raw_stderr = ""

    def failed_fns(self):
        s = set(f for f, d in self.functions.items() if not d["success"])
        s |= set(e["fn"] for e in self.errors if e["fn"] and e["genuine"])
        return s


def scan_assumptions(text):
    """mechanical scan of the generated file for everything that is assumed rather than proved"""
    hits = []
    lines = text.split("\n")
    for i, line in enumerate(lines):
        if re.search(r"\bassume\s*\(|\badmit\s*\(|assume_specification|external_type_specification", line):
            hits.append("L%d: %s" % (i + 1, line.strip()[:160]))
        elif re.search(r"\buninterp\b", line):
            hits.append("uninterpreted: " + line.strip()[:150])
        elif "#[verifier::external_body]" in line or "#[verifier::external]" in line:
            # name the item the attribute applies to
            item = ""
            for j in range(i, min(i + 4, len(lines))):
                m = re.search(r"\b(fn|struct|impl|proof fn)\s+([^({]+)", lines[j])
                if m:
                    item = (m.group(1) + " " + m.group(2)).strip()[:110]
                    break
            kind = "assumed contract (external_body)" if "external_body" in line else "external (not verified)"
            hits.append("%s: %s" % (kind, item or lines[min(i + 1, len(lines) - 1)].strip()[:110]))
        elif re.match(r"\s*global size_of", line):
            hits.append("machine arithmetic: " + line.strip())
    return hits


def _line_map(text, crate):
    """map line -> qualified fn name in the generated file"""
    spans = []
    try:
        for f in rlex.find_fns(text):
            nm = crate + "::" + ((f.owner + "::") if f.owner else "") + f.name
            spans.append((f.line1, f.line2, nm))
    except Exception:
        pass
    return spans


def _fn_at(spans, line):
    best = None
    for a, b, nm in spans:
        if a - 12 <= line <= b:  # contract clauses sit above the body: signature line is a
            if a <= line <= b:
                return nm
    # clauses (requires/ensures) belong to the *next* fn start within 60 lines below?  they are
    # between `fn` and `{` so they are inside [line1,line2] already (line1 = line of `fn`).
    return best


def run(unit_name, canary=False, repo=None, rlimit=None, workdir=None, timeout=600, extra_args=None):
    res = UnitResult(unit_name)
    t0 = time.time()
    try:
        u = gen.Unit(unit_name, repo=repo)
        text = u.generate(canary=canary)
    except gen.LostAnchor as e:
        res.status, res.detail = "lost", str(e)
        res.wall = time.time() - t0
        return res
    except (rlex.LexError, ValueError, KeyError, IndexError, re.error) as e:
        res.status, res.detail = "lost", "extractor: %r" % (e,)
        res.wall = time.time() - t0
        return res
    res.hashes = u.hashes()
    res.locals = dict(u.locals)
    res.log = list(u.log)
    res.assumption_scan = scan_assumptions(text)
    wd = workdir or tempfile.mkdtemp(prefix="run-", dir=BUILD)
    os.makedirs(wd, exist_ok=True)
    crate = unit_name + ("_canary" if canary else "")
    path = os.path.join(wd, crate + ".rs")
    with open(path, "w") as f:
        f.write(text)
    res.path = path
    cmd = [VERUS, os.path.basename(path), "--output-json", "--time", "--triggers-mode", "silent", "--multiple-errors", "8"]
    if rlimit:
        cmd += ["--rlimit", str(rlimit)]
    if extra_args:
        cmd += extra_args
    res.cmd = " ".join(cmd)
    try:
        p = subprocess.run(cmd, cwd=wd, capture_output=True, text=True, timeout=timeout)
    except subprocess.TimeoutExpired:
        res.status, res.detail = "tool", "verus timeout after %ds" % timeout
        res.wall = time.time() - t0
        return res
    res.wall = time.time() - t0
    res.raw_stderr = p.stderr
    try:
        j = json.loads(p.stdout)
    except Exception:
        res.status, res.detail = "tool", "no JSON from verus (exit %d): %s" % (p.returncode, p.stderr[-2000:])
        return res
    vr = j.get("verification-results", {})
    res.verified = vr.get("verified", 0)
    res.n_errors = vr.get("errors", 0)
    try:
        for mod in j["times-ms"]["smt"]["smt-run-module-times"]:
            for fb in mod.get("function-breakdown", []):
                nm = fb["function"]
                d = res.functions.setdefault(nm, {"success": True, "time_us": 0, "rlimit": 0, "mode": fb.get("mode:", "")})
                d["success"] = d["success"] and bool(fb.get("success"))
                d["time_us"] += fb.get("time-micros", 0)
                d["rlimit"] += fb.get("rlimit", 0)
    except KeyError:
        pass
    # parse human diagnostics on stderr
    spans = _line_map(text, crate)
    blocks = re.split(r"\n(?=error|warning|note)", p.stderr)
    for b in blocks:
        m = re.match(r"(error|warning|note)(\[[A-Z0-9]+\])?: (.*)", b)
        if not m or m.group(1) != "error":
            continue
        msg = m.group(3).strip()
        if msg.startswith("aborting due to"):
            continue
        lm = re.search(r"--> [^:\n]+:(\d+):(\d+)", b)
        line = int(lm.group(1)) if lm else 0
        genuine = any(g in msg for g in GENUINE)
        # for pre/postcondition failures the first span may be the clause; the function is found by any span inside it
        fn = None
        for lm2 in re.finditer(r"--> [^:\n]+:(\d+):(\d+)", b):
            fn = _fn_at(spans, int(lm2.group(1)))
            if fn:
                break
        if fn is None:
            for lm2 in re.finditer(r"^\s*(\d+) \|", b, re.M):
                fn = _fn_at(spans, int(lm2.group(1)))
                if fn:
                    break
        res.errors.append({"fn": fn, "msg": msg, "line": line, "genuine": genuine, "text": b[:3000]})
    if vr.get("encountered-vir-error") or (vr.get("encountered-error") and not res.functions and not any(e["genuine"] for e in res.errors)):
        res.status = "frontend"
        res.detail = "\n".join(e["text"] for e in res.errors[:5]) or p.stderr[-3000:]
        return res
    non_genuine = [e for e in res.errors if not e["genuine"]]
    if non_genuine and not vr.get("success"):
        # rustc / mode errors abort before SMT: nothing was decided
        if not res.functions:
            res.status = "frontend"
            res.detail = "\n".join(e["text"] for e in non_genuine[:5])
            return res
    if res.failed_fns() or not vr.get("success", False):
        res.status = "failed"
    return res
