"""Native replay harness (DESIGN.md §1.4): scratch copy of /repo's working tree + accessor code
appended to the copy + driver binary.  Used for (i) counterexample search when a Verus obligation
fails, (ii) bounded stand-ins.  Everything lives outside /repo and /verif (default /var/tmp/melda-verif)
and is rebuilt when absent; the binary is keyed by a hash of the sources it was built from."""
import fcntl
import glob
import hashlib
import json
import os
import shutil
import subprocess
import time

from . import gen

VERIF = gen.VERIF
ROOT = os.environ.get("MELDA_VERIF_SCRATCH", "/var/tmp/melda-verif")
NATIVE = os.path.join(VERIF, "native")


def _key(repo):
    h = hashlib.sha256()
    files = sorted(glob.glob(os.path.join(repo, "src", "*.rs"))) + [os.path.join(repo, "Cargo.toml")]
    files += sorted(glob.glob(os.path.join(NATIVE, "overlay", "*"))) + sorted(glob.glob(os.path.join(NATIVE, "driver", "src", "**", "*.rs"), recursive=True))
    files += [os.path.join(NATIVE, "driver", "Cargo.toml.in")]
    for f in files:
        h.update(f.encode())
        h.update(open(f, "rb").read())
    return h.hexdigest()[:24]


class BuildError(Exception):
    pass


def build(repo=None):
    """returns path of the driver binary for the current working tree of `repo`."""
    repo = repo or gen.REPO
    os.makedirs(ROOT, exist_ok=True)
    key = _key(repo)
    bindir = os.path.join(ROOT, "bin", key)
    binp = os.path.join(bindir, "melda-verif-native")
    if os.path.exists(binp):
        return binp
    failmark = os.path.join(bindir, "BUILD_FAILED")
    with open(os.path.join(ROOT, "lock"), "w") as lk:
        fcntl.flock(lk, fcntl.LOCK_EX)
        if os.path.exists(binp):
            return binp
        if os.path.exists(failmark):
            raise BuildError(open(failmark).read())
        work = os.path.join(ROOT, "work")
        copy = os.path.join(work, "repo")
        shutil.rmtree(work, ignore_errors=True)
        os.makedirs(copy)
        shutil.copytree(os.path.join(repo, "src"), os.path.join(copy, "src"))
        shutil.copy(os.path.join(repo, "Cargo.toml"), copy)
        # accessor code appended to the copy (never to /repo)
        for ap in sorted(glob.glob(os.path.join(NATIVE, "overlay", "*.append"))):
            tgt = os.path.join(copy, "src", os.path.basename(ap)[:-len(".append")])
            if not os.path.exists(tgt):
                raise BuildError("overlay target %s missing" % tgt)
            with open(tgt, "a") as f:
                f.write(open(ap).read())
        drv = os.path.join(work, "driver")
        shutil.copytree(os.path.join(NATIVE, "driver", "src"), os.path.join(drv, "src"))
        ct = open(os.path.join(NATIVE, "driver", "Cargo.toml.in")).read().replace("@MELDA_PATH@", copy)
        open(os.path.join(drv, "Cargo.toml"), "w").write(ct)
        lock = os.path.join(repo, "Cargo.lock")
        saved = os.path.join(ROOT, "Cargo.lock.driver")
        if os.path.exists(saved):
            shutil.copy(saved, os.path.join(drv, "Cargo.lock"))
        elif os.path.exists(lock):
            shutil.copy(lock, os.path.join(drv, "Cargo.lock"))
        elif os.path.exists(os.path.join(NATIVE, "Cargo.lock")):
            shutil.copy(os.path.join(NATIVE, "Cargo.lock"), os.path.join(drv, "Cargo.lock"))
        env = dict(os.environ)
        env.update({"CARGO_NET_OFFLINE": "true", "CARGO_TARGET_DIR": os.path.join(ROOT, "target"), "RUSTFLAGS": "-Awarnings"})
        env.pop("RUSTUP_TOOLCHAIN", None)
        p = subprocess.run(["cargo", "build", "--release", "--offline"], cwd=drv, env=env, capture_output=True, text=True)
        os.makedirs(bindir, exist_ok=True)
        if p.returncode != 0:
            msg = p.stderr[-4000:]
            open(failmark, "w").write(msg)
            raise BuildError(msg)
        if os.path.exists(os.path.join(drv, "Cargo.lock")):
            shutil.copy(os.path.join(drv, "Cargo.lock"), saved)
        shutil.copy(os.path.join(ROOT, "target", "release", "melda-verif-native"), binp)
        # prune old binaries (keep 6 newest)
        olds = sorted(glob.glob(os.path.join(ROOT, "bin", "*")), key=os.path.getmtime)
        for o in olds[:-6]:
            shutil.rmtree(o, ignore_errors=True)
        shutil.rmtree(work, ignore_errors=True)
    return binp


def run_oracle(name, tier, seed, timeout=3000):
    t0 = time.time()
    try:
        binp = build()
    except BuildError as e:
        return {"name": name, "status": "undecided", "detail": "native build failed: " + str(e)[-1500:], "cases": 0, "failures": []}
    try:
        env = dict(os.environ)
        env.setdefault("RAYON_NUM_THREADS", "2")  # API-level oracles: a 16-thread pool only adds wake-up overhead
        p = subprocess.run([binp, name, tier, str(seed)], capture_output=True, text=True, timeout=timeout,
                           cwd=ROOT, env=env)
    except subprocess.TimeoutExpired:
        return {"name": name, "status": "undecided", "detail": "timeout", "cases": 0, "failures": []}
    try:
        j = json.loads(p.stdout.strip().split("\n")[-1])
    except Exception:
        return {"name": name, "status": "undecided", "detail": "driver exit %d: %s" % (p.returncode, (p.stderr or p.stdout)[-1500:]), "cases": 0, "failures": []}
    j["status"] = "fail" if j.get("failures") else "ok"
    j["wall_s"] = round(time.time() - t0, 2)
    return j


def run_standins(standins, tier, seed):
    out = []
    for s in standins:
        r = run_oracle(s["oracle"], tier, seed)
        r["name"] = s["oracle"]
        r["stands_in_for"] = s.get("for", "")
        r["ignore_prefix"] = s.get("ignore_prefix", [])
        out.append(r)
    return out


def search_counterexample(obligation, P):
    """bounded search on the real code for an input violating the failed obligation's postcondition"""
    m = P.get("cex", {})
    oracle = m.get(obligation) or P.get("cex_all")
    if not oracle:
        return None
    r = run_oracle(oracle, "thorough", 0)
    # failures of another property (the commit hang: C08, not applicable to this technique) are never a counterexample here
    skip = tuple(P.get("ignore_prefix_all", ["hang:"]))
    fails = [f for f in r.get("failures", []) if not str(f.get("case_id", "")).startswith(skip)]
    if fails:
        return {"oracle": oracle, "case": fails[0], "bound": r.get("bound")}
    return {"oracle": oracle, "case": None, "bound": r.get("bound"), "status": r.get("status"), "detail": r.get("detail", "")[:500], "cases": r.get("cases")}


def replay_case(nat):
    try:
        binp = build()
    except BuildError as e:
        return {"reproduced": False, "error": str(e)[-800:]}
    p = subprocess.run([binp, "replay", nat["oracle"], json.dumps(nat["case"])], capture_output=True, text=True, cwd=ROOT)
    try:
        return json.loads(p.stdout.strip().split("\n")[-1])
    except Exception:
        return {"reproduced": False, "error": (p.stderr or p.stdout)[-800:]}
